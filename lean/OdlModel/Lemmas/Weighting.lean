/-
Helper definitions and lemmas for C02: the model of `Model/Weighting.lean` instantiated at
`RCLike 𝕜` (ℝ or ℂ) data with real weights, and the translation of the model's index-order
sums / maxima to `Finset` sums.
-/
import OdlModel.Model.Weighting
import Mathlib.Analysis.RCLike.Basic
import Mathlib.Algebra.BigOperators.Group.Finset.Basic
import Mathlib.Analysis.SpecialFunctions.Pow.Real
import Mathlib.Algebra.Order.BigOperators.Ring.Finset
import Mathlib.Analysis.Normed.Group.Basic
import Mathlib.Tactic.FieldSimp
import Mathlib.Tactic.Linarith
import Mathlib.Analysis.SpecialFunctions.Sqrt
import Mathlib.Tactic.NormNum
import Mathlib.Tactic.Positivity

namespace OdlModel.C02
open OdlModel.Weighting Finset

/-- Scalar operations of the model at `𝕜 = ℝ` or `ℂ`: complex conjugate, real part, modulus. -/
noncomputable def ops (𝕜 : Type) [RCLike 𝕜] : Ops 𝕜 ℝ :=
  { rK := fun r => (r : 𝕜), conj := fun z => starRingEnd 𝕜 z, re := fun z => RCLike.re z,
    abs := fun z => ‖z‖ }

/-- Real operations of the model: `Real.sqrt`, real power, absolute value; `np.isclose(·,1)`
is a parameter. -/
noncomputable def roots (close1 : ℝ → Bool) : Roots ℝ :=
  { sqrt := Real.sqrt, rpow := fun x p => x ^ p, rabs := fun x => |x|, close1 := close1 }

@[simp] theorem ops_rK (𝕜 : Type) [RCLike 𝕜] (r : ℝ) : (ops 𝕜).rK r = (r : 𝕜) := rfl
@[simp] theorem ops_conj (𝕜 : Type) [RCLike 𝕜] (z : 𝕜) : (ops 𝕜).conj z = starRingEnd 𝕜 z := rfl
@[simp] theorem ops_re (𝕜 : Type) [RCLike 𝕜] (z : 𝕜) : (ops 𝕜).re z = RCLike.re z := rfl
@[simp] theorem ops_abs (𝕜 : Type) [RCLike 𝕜] (z : 𝕜) : (ops 𝕜).abs z = ‖z‖ := rfl
@[simp] theorem roots_sqrt (c : ℝ → Bool) (x : ℝ) : (roots c).sqrt x = Real.sqrt x := rfl
@[simp] theorem roots_rpow (c : ℝ → Bool) (x p : ℝ) : (roots c).rpow x p = x ^ p := rfl
@[simp] theorem roots_rabs (c : ℝ → Bool) (x : ℝ) : (roots c).rabs x = |x| := rfl
@[simp] theorem roots_close1 (c : ℝ → Bool) : (roots c).close1 = c := rfl

theorem sumTo_eq_sum {M : Type} [AddCommMonoid M] (n : Nat) (f : Nat → M) :
    sumTo n f = ∑ i ∈ Finset.range n, f i := by
  induction n with
  | zero => simp [sumTo]
  | succ n ih => simp [sumTo, ih, Finset.sum_range_succ]

variable {𝕜 : Type} [RCLike 𝕜]

/-- weight function of a tensor-space weighting -/
def twFn : TW ℝ → Nat → ℝ
  | .const c => fun _ => c
  | .arr w => w

def pwFn : PW ℝ → Nat → ℝ
  | .const c => fun _ => c
  | .arr w => w

/-- effective quadrature weights of a discretized space -/
noncomputable def dW (close1 : ℝ → Bool) (u : Bool) (axes : List (Axis ℝ)) (w : TW ℝ) (p : Expo ℝ) :
    Nat → ℝ :=
  fun i => if scalesBoundary close1 u axes w p then twFn w i * bfac close1 (fun f => f) axes i
    else twFn w i

theorem tInner_eq_wsum (w : TW ℝ) (n : Nat) (x y : Nat → 𝕜) :
    tInner (ops 𝕜).toIOps w n x y = ∑ i ∈ range n, x i * starRingEnd 𝕜 (y i) * ((twFn w i : ℝ) : 𝕜) := by
  cases w <;> simp [tInner, innerDefault, sumTo_eq_sum, twFn, Finset.mul_sum, mul_assoc] <;>
    exact Finset.sum_congr rfl (fun i _ => by ring)

theorem dInner_eq_wsum (close1 : ℝ → Bool) (u : Bool) (axes : List (Axis ℝ)) (w : TW ℝ)
    (p : Expo ℝ) (x y : Nat → 𝕜) :
    dInner (ops 𝕜).toIOps close1 u axes w p x y =
      ∑ i ∈ range (axesSize axes), x i * starRingEnd 𝕜 (y i) * ((dW close1 u axes w p i : ℝ) : 𝕜) := by
  unfold dInner dW
  split_ifs <;> simp [tInner_eq_wsum] <;>
    exact Finset.sum_congr rfl (fun i _ => by push_cast; ring)

theorem pInner_eq_wsum (w : PW ℝ) (m : Nat) (a : Nat → 𝕜) :
    pInner (ops 𝕜).toIOps w m a = ∑ k ∈ range m, a k * ((pwFn w k : ℝ) : 𝕜) := by
  cases w <;> simp [pInner, sumTo_eq_sum, pwFn, Finset.mul_sum] <;>
    exact Finset.sum_congr rfl (fun i _ => by ring)

/-- weighted Cauchy–Schwarz step shared by leaves and product nodes -/
theorem wcs (m : Nat) (w : Nat → ℝ) (a : Nat → 𝕜) (A B : Nat → ℝ)
    (hw : ∀ k, k < m → 0 ≤ w k) (hA : ∀ k, k < m → 0 ≤ A k) (hB : ∀ k, k < m → 0 ≤ B k)
    (h : ∀ k, k < m → ‖a k‖ ^ 2 ≤ A k * B k) :
    ‖∑ k ∈ range m, a k * ((w k : ℝ) : 𝕜)‖ ^ 2 ≤
      (∑ k ∈ range m, A k * w k) * (∑ k ∈ range m, B k * w k) := by
  have h1 : ‖∑ k ∈ range m, a k * ((w k : ℝ) : 𝕜)‖ ≤ ∑ k ∈ range m, ‖a k‖ * w k := by
    refine (norm_sum_le _ _).trans (le_of_eq ?_)
    refine Finset.sum_congr rfl (fun k hk => ?_)
    rw [norm_mul, RCLike.norm_ofReal, abs_of_nonneg (hw k (Finset.mem_range.mp hk))]
  have h2 : (∑ k ∈ range m, ‖a k‖ * w k) ^ 2 ≤
      (∑ k ∈ range m, A k * w k) * (∑ k ∈ range m, B k * w k) := by
    apply Finset.sum_sq_le_sum_mul_sum_of_sq_le_mul
    · intro k hk; exact mul_nonneg (hA k (mem_range.mp hk)) (hw k (mem_range.mp hk))
    · intro k hk; exact mul_nonneg (hB k (mem_range.mp hk)) (hw k (mem_range.mp hk))
    · intro k hk
      have := h k (mem_range.mp hk)
      have hw' := hw k (mem_range.mp hk)
      calc (‖a k‖ * w k) ^ 2 = ‖a k‖ ^ 2 * (w k) ^ 2 := by ring
        _ ≤ (A k * B k) * (w k) ^ 2 := by gcongr
        _ = A k * w k * (B k * w k) := by ring
  have h0 : 0 ≤ ‖∑ k ∈ range m, a k * ((w k : ℝ) : 𝕜)‖ := norm_nonneg _
  calc _ ≤ (∑ k ∈ range m, ‖a k‖ * w k) ^ 2 := by gcongr
    _ ≤ _ := h2

def twPos (w : TW ℝ) (n : Nat) : Prop := ∀ i, i < n → 0 < twFn w i
def pwPos (w : PW ℝ) (m : Nat) : Prop := ∀ k, k < m → 0 < pwFn w k
def axesPos (axes : List (Axis ℝ)) : Prop := ∀ a ∈ axes, 0 < a.fl ∧ 0 < a.fr

/-- all weights (and boundary-cell fractions) of the space tree are positive -/
def SpacePos : Space ℝ → Prop
  | .tens n w _ => twPos w n
  | .discr _ axes w _ => twPos w (axesSize axes) ∧ axesPos axes
  | .prod m w _ comp => pwPos w m ∧ ∀ k, k < m → SpacePos (comp k)

/-- all entries inside the index range are zero -/
def ZeroOn : Space ℝ → El 𝕜 → Prop
  | .tens n _ _, .vec x => ∀ i, i < n → x i = 0
  | .discr _ axes _ _, .vec x => ∀ i, i < axesSize axes → x i = 0
  | .prod m _ _ comp, .tup xs => ∀ k, k < m → ZeroOn (comp k) (xs k)
  | _, _ => True

theorem sideFac_pos (close1 : ℝ → Bool) (g : ℝ → ℝ) (hg : ∀ f, 0 < f → 0 < g f) (a : Axis ℝ)
    (ha : 0 < a.fl ∧ 0 < a.fr) (k : Nat) : 0 < sideFac close1 g a k := by
  unfold sideFac
  have := hg _ ha.1; have := hg _ ha.2
  split_ifs <;> positivity

theorem bfac_pos (close1 : ℝ → Bool) (g : ℝ → ℝ) (hg : ∀ f, 0 < f → 0 < g f)
    (axes : List (Axis ℝ)) (h : axesPos axes) (i : Nat) : 0 < bfac close1 g axes i := by
  induction axes generalizing i with
  | nil => simp [bfac]
  | cons a l ih =>
    simp only [bfac]
    exact mul_pos (sideFac_pos close1 g hg a (h a (by simp)) _)
      (ih (fun b hb => h b (by simp [hb])) _)

theorem dW_pos (close1 : ℝ → Bool) (u : Bool) (axes : List (Axis ℝ)) (w : TW ℝ) (p : Expo ℝ)
    (hw : twPos w (axesSize axes)) (ha : axesPos axes) (i : Nat) (hi : i < axesSize axes) :
    0 < dW close1 u axes w p i := by
  unfold dW
  split_ifs
  · exact mul_pos (hw i hi) (bfac_pos close1 _ (fun f hf => hf) axes ha i)
  · exact hw i hi

theorem wsum_self (n : Nat) (ω : Nat → ℝ) (x : Nat → 𝕜) :
    ∑ i ∈ range n, x i * starRingEnd 𝕜 (x i) * ((ω i : ℝ) : 𝕜) =
      ((∑ i ∈ range n, ‖x i‖ ^ 2 * ω i : ℝ) : 𝕜) := by
  push_cast
  exact Finset.sum_congr rfl (fun i _ => by rw [RCLike.mul_conj])

theorem wsum_self_eq_zero (n : Nat) (ω : Nat → ℝ) (hω : ∀ i, i < n → 0 < ω i) (x : Nat → 𝕜) :
    (∑ i ∈ range n, ‖x i‖ ^ 2 * ω i = 0) ↔ ∀ i, i < n → x i = 0 := by
  rw [Finset.sum_eq_zero_iff_of_nonneg (fun i hi => mul_nonneg (sq_nonneg _) (hω i (mem_range.mp hi)).le)]
  constructor
  · intro h i hi
    have := h i (mem_range.mpr hi)
    have hw := hω i hi
    have : ‖x i‖ ^ 2 = 0 := by
      rcases mul_eq_zero.mp this with h | h
      · exact h
      · exact absurd h hw.ne'
    simpa using this
  · intro h i hi
    simp [h i (mem_range.mp hi)]

/-- `⟨x, x⟩` is a non-negative real, zero exactly for the zero element. -/
theorem inner_self_real (close1 : ℝ → Bool) (s : Space ℝ) (hs : SpacePos s) (x : El 𝕜)
    (hx : Shaped s x) :
    ∃ r : ℝ, 0 ≤ r ∧ Space.inner (ops 𝕜).toIOps close1 s x x = (r : 𝕜) ∧ (r = 0 ↔ ZeroOn s x) := by
  induction s generalizing x with
  | tens n w p =>
    cases x with
    | tup => simp [Shaped] at hx
    | vec x =>
      refine ⟨∑ i ∈ range n, ‖x i‖ ^ 2 * twFn w i, ?_, ?_, ?_⟩
      · exact Finset.sum_nonneg (fun i hi => mul_nonneg (sq_nonneg _) (hs i (mem_range.mp hi)).le)
      · simp only [Space.inner, tInner_eq_wsum, wsum_self]
      · simpa [ZeroOn] using wsum_self_eq_zero n (twFn w) hs x
  | discr u axes w p =>
    cases x with
    | tup => simp [Shaped] at hx
    | vec x =>
      have hpos := dW_pos close1 u axes w p hs.1 hs.2
      refine ⟨∑ i ∈ range (axesSize axes), ‖x i‖ ^ 2 * dW close1 u axes w p i, ?_, ?_, ?_⟩
      · exact Finset.sum_nonneg (fun i hi => mul_nonneg (sq_nonneg _) (hpos i (mem_range.mp hi)).le)
      · simp only [Space.inner, dInner_eq_wsum, wsum_self]
      · simpa [ZeroOn] using wsum_self_eq_zero _ _ hpos x
  | prod m w p comp ih =>
    cases x with
    | vec => simp [Shaped] at hx
    | tup xs =>
      simp only [Shaped] at hx
      have ih' := fun k (hk : k < m) => ih k (hs.2 k hk) (xs k) (hx k)
      choose! r hr0 hreq hrz using ih'
      refine ⟨∑ k ∈ range m, r k * pwFn w k, ?_, ?_, ?_⟩
      · exact Finset.sum_nonneg (fun k hk => mul_nonneg (hr0 k (mem_range.mp hk)) (hs.1 k (mem_range.mp hk)).le)
      · simp only [Space.inner, pInner_eq_wsum]
        push_cast
        exact Finset.sum_congr rfl (fun k hk => by rw [hreq k (mem_range.mp hk)])
      · rw [Finset.sum_eq_zero_iff_of_nonneg (fun k hk => mul_nonneg (hr0 k (mem_range.mp hk)) (hs.1 k (mem_range.mp hk)).le)]
        simp only [ZeroOn]
        constructor
        · intro h k hk
          have := h k (mem_range.mpr hk)
          rcases mul_eq_zero.mp this with h' | h'
          · exact (hrz k hk).mp h'
          · exact absurd h' (hs.1 k hk).ne'
        · intro h k hk
          rw [(hrz k (mem_range.mp hk)).mpr (h k (mem_range.mp hk))]; simp

theorem re_wsum (m : Nat) (a : Nat → 𝕜) (w : Nat → ℝ) :
    RCLike.re (∑ k ∈ range m, a k * ((w k : ℝ) : 𝕜)) = ∑ k ∈ range m, RCLike.re (a k) * w k := by
  rw [map_sum]
  exact Finset.sum_congr rfl (fun k _ => by simp)

/-- the `np.isclose(·, 1)` test idealised: it only fires at exactly 1 -/
def Ideal (close1 : ℝ → Bool) : Prop := ∀ r, close1 r = true → r = 1

theorem sum_range_divmod (n M : Nat) (f g : Nat → ℝ) :
    ∑ i ∈ range (n * M), f (i / M) * g (i % M) = (∑ k ∈ range n, f k) * ∑ j ∈ range M, g j := by
  rcases Nat.eq_zero_or_pos M with rfl | hM
  · simp
  induction n with
  | zero => simp
  | succ n ih =>
    have e := Finset.sum_range_add (fun i => f (i / M) * g (i % M)) (n * M) M
    have e2 : (n + 1) * M = n * M + M := Nat.succ_mul n M
    rw [e2, e, ih, Finset.sum_range_succ (fun k => f k) n, add_mul]
    congr 1
    rw [Finset.mul_sum]
    refine Finset.sum_congr rfl (fun j hj => ?_)
    have hj' := mem_range.mp hj
    show f ((n * M + j) / M) * g ((n * M + j) % M) = f n * g j
    rw [Nat.mul_comm n M, Nat.mul_add_div hM, Nat.mul_add_mod, Nat.div_eq_of_lt hj', Nat.mod_eq_of_lt hj']
    simp

theorem bfac_sum (close1 : ℝ → Bool) (g : ℝ → ℝ) (axes : List (Axis ℝ)) :
    ∑ i ∈ range (axesSize axes), bfac close1 g axes i =
      (axes.map (fun a => ∑ k ∈ range a.n, sideFac close1 g a k)).prod := by
  induction axes with
  | nil => simp [axesSize, bfac]
  | cons a l ih =>
    simp only [axesSize, bfac, List.map_cons, List.prod_cons, ← ih]
    exact sum_range_divmod a.n (axesSize l) _ _

theorem sideFac_ideal (close1 : ℝ → Bool) (hc : Ideal close1) (a : Axis ℝ) (k : Nat) :
    sideFac close1 (fun f => f) a k =
      (if k = 0 then a.fl else 1) * (if k + 1 = a.n then a.fr else 1) := by
  unfold sideFac
  have e1 : close1 a.fl = true → a.fl = 1 := hc _
  have e2 : close1 a.fr = true → a.fr = 1 := hc _
  by_cases h1 : close1 a.fl = true <;> by_cases h2 : close1 a.fr = true <;>
    simp [h1, h2] <;> split_ifs <;> simp_all

theorem sideFac_sum (close1 : ℝ → Bool) (hc : Ideal close1) (a : Axis ℝ) (hn : 2 ≤ a.n) :
    ∑ k ∈ range a.n, sideFac close1 (fun f => f) a k = (a.n : ℝ) - 2 + a.fl + a.fr := by
  obtain ⟨m, hm⟩ : ∃ m, a.n = m + 2 := ⟨a.n - 2, by omega⟩
  simp only [sideFac_ideal close1 hc, hm]
  rw [Finset.sum_range_succ, Finset.sum_range_succ']
  have : ∀ k ∈ range m, ((if k + 1 = 0 then a.fl else 1) * (if k + 1 + 1 = m + 2 then a.fr else 1) : ℝ) = 1 := by
    intro k hk
    have := mem_range.mp hk
    rw [if_neg (by omega), if_neg (by omega)]; ring
  rw [Finset.sum_congr rfl this]
  simp

theorem quad_alg (a b g1 g2 N : ℝ) (hN : N ≠ 0) (hg : g2 - g1 ≠ 0) :
    (g2 - g1) / N * ((N + 1) - 2 + (1 / 2 + (g1 - a) / ((g2 - g1) / N)) +
      (1 / 2 + (b - g2) / ((g2 - g1) / N))) = b - a := by
  field_simp
  ring

theorem gridEnds_lt (a b : ℝ) (hab : a < b) (m : Nat) (l r : Bool) :
    (gridEnds (fun k => (k : ℝ)) a b (m + 2) l r).1 < (gridEnds (fun k => (k : ℝ)) a b (m + 2) l r).2 := by
  have e2 : 2 * (m + 2) - 1 = 2 * m + 3 := by omega
  have hm : (0 : ℝ) ≤ m := Nat.cast_nonneg m
  have hba' : 0 < b - a := by linarith
  cases l <;> cases r <;> simp only [gridEnds, e2] <;> push_cast
  · have : (b - a) / (2 * ((m : ℝ) + 2)) ≤ (b - a) / 4 := by
      apply div_le_div_of_nonneg_left hba'.le (by norm_num) (by linarith)
    linarith
  · have : (b - a) / (2 * (m : ℝ) + 3) ≤ (b - a) / 3 := by
      apply div_le_div_of_nonneg_left hba'.le (by norm_num) (by linarith)
    linarith
  · have : (b - a) / (2 * (m : ℝ) + 3) ≤ (b - a) / 3 := by
      apply div_le_div_of_nonneg_left hba'.le (by norm_num) (by linarith)
    linarith
  · exact hab

theorem mkAxis_quad (close1 : ℝ → Bool) (hc : Ideal close1) (a b : ℝ) (hab : a < b) (n : Nat)
    (hn : 1 ≤ n) (l r : Bool) :
    (mkAxis (fun k => (k : ℝ)) a b n l r).2 *
      ∑ k ∈ range (mkAxis (fun k => (k : ℝ)) a b n l r).1.n,
        sideFac close1 (fun f => f) (mkAxis (fun k => (k : ℝ)) a b n l r).1 k = b - a := by
  by_cases h1 : n = 1
  · subst h1
    simp [mkAxis, sideFac_ideal close1 hc]
  · obtain ⟨m, rfl⟩ : ∃ m, n = m + 2 := ⟨n - 2, by omega⟩
    have e1 : m + 2 - 1 = m + 1 := by omega
    have hlt := gridEnds_lt a b hab m l r
    unfold mkAxis
    rw [if_neg h1]
    simp only []
    have hs : ∀ fl fr : ℝ, ∑ x ∈ range (m + 2), sideFac close1 (fun f => f) ⟨m + 2, fl, fr⟩ x =
        ((m + 2 : ℕ) : ℝ) - 2 + fl + fr := fun fl fr => sideFac_sum close1 hc ⟨m + 2, fl, fr⟩ (by simp)
    rw [hs, e1]
    have := quad_alg a b _ _ ((m + 1 : ℕ) : ℝ) (by positivity) (sub_ne_zero.mpr hlt.ne')
    push_cast at this ⊢
    rw [← this]
    ring

theorem bfac_of_allClose (close1 : ℝ → Bool) (g : ℝ → ℝ) (axes : List (Axis ℝ))
    (h : allClose1 close1 axes = true) (i : Nat) : bfac close1 g axes i = 1 := by
  induction axes generalizing i with
  | nil => simp [bfac]
  | cons a l ih =>
    simp only [allClose1, List.all_cons, Bool.and_eq_true] at h
    simp only [bfac, sideFac, h.1.1, h.1.2]
    simp [ih (by simpa [allClose1] using h.2)]

/-- cell volume of `uniform_discr`: product of the cell sides -/
noncomputable def cellVolume (specs : List (AxSpec ℝ)) : ℝ :=
  prodL (specs.map (fun s => (mkAxis (fun k => (k : ℝ)) s.a s.b s.n s.l s.r).2))

theorem quad_prod (close1 : ℝ → Bool) (hc : Ideal close1) (specs : List (AxSpec ℝ))
    (hs : ∀ s ∈ specs, s.a < s.b ∧ 1 ≤ s.n) :
    cellVolume specs *
      ((specAxes (fun k => (k : ℝ)) specs).map
        (fun a => ∑ k ∈ range a.n, sideFac close1 (fun f => f) a k)).prod =
      (specs.map (fun s => s.b - s.a)).prod := by
  induction specs with
  | nil => simp [cellVolume, specAxes, prodL]
  | cons s l ih =>
    have h1 := mkAxis_quad close1 hc s.a s.b (hs s (by simp)).1 s.n (hs s (by simp)).2 s.l s.r
    have ih' := ih (fun t ht => hs t (by simp [ht]))
    simp only [cellVolume, specAxes, List.map_cons, prodL, List.prod_cons] at ih' ⊢
    rw [← ih', ← h1]
    ring

theorem discr_one_sum (close1 : ℝ → Bool) (hc : Ideal close1) (specs : List (AxSpec ℝ))
    (hs : ∀ s ∈ specs, s.a < s.b ∧ 1 ≤ s.n) :
    ∑ i ∈ range (axesSize (specAxes (fun k => (k : ℝ)) specs)),
      dW close1 true (specAxes (fun k => (k : ℝ)) specs) (.const (cellVolume specs)) .two i =
      (specs.map (fun s => s.b - s.a)).prod := by
  have hdW : ∀ i, dW close1 true (specAxes (fun k => (k : ℝ)) specs) (.const (cellVolume specs)) .two i
      = cellVolume specs * bfac close1 (fun f => f) (specAxes (fun k => (k : ℝ)) specs) i := by
    intro i
    unfold dW
    split_ifs with h
    · simp [twFn]
    · have : allClose1 close1 (specAxes (fun k => (k : ℝ)) specs) = true := by
        simpa [scalesBoundary, uniformlyWeighted, Expo.isInf] using h
      simp [twFn, bfac_of_allClose close1 _ _ this]
  simp only [hdW, ← Finset.mul_sum, bfac_sum]
  exact quad_prod close1 hc specs hs

/-- exponent at the root of the space tree -/
def expoOf : Space ℝ → Expo ℝ
  | .tens _ _ p => p
  | .discr _ _ _ p => p
  | .prod _ _ p _ => p

theorem tNorm_two_sq (close1 : ℝ → Bool) (w : TW ℝ) (n : Nat) (hw : twPos w n) (x : Nat → 𝕜) :
    (tNorm (ops 𝕜) (roots close1) w .two n x) ^ 2 = ∑ i ∈ range n, ‖x i‖ ^ 2 * twFn w i ∧
      0 ≤ tNorm (ops 𝕜) (roots close1) w .two n x := by
  cases w with
  | const c =>
    rcases Nat.eq_zero_or_pos n with rfl | hn
    · simp [tNorm, vecNorm, sumTo]
    have hc : 0 < c := hw 0 hn
    have hS : 0 ≤ ∑ i ∈ range n, ‖x i‖ * ‖x i‖ := Finset.sum_nonneg (fun i _ => mul_self_nonneg _)
    simp only [tNorm, vecNorm, sumTo_eq_sum, roots_sqrt, ops_abs, twFn]
    refine ⟨?_, by positivity⟩
    rw [mul_pow, Real.sq_sqrt hc.le, Real.sq_sqrt hS, Finset.mul_sum]
    exact Finset.sum_congr rfl (fun i _ => by ring)
  | arr w =>
    have hre : RCLike.re (tInner (ops 𝕜).toIOps (.arr w) n x x) = ∑ i ∈ range n, ‖x i‖ ^ 2 * w i := by
      rw [tInner_eq_wsum, wsum_self, RCLike.ofReal_re]; rfl
    have hS : 0 ≤ ∑ i ∈ range n, ‖x i‖ ^ 2 * w i :=
      Finset.sum_nonneg (fun i hi => mul_nonneg (sq_nonneg _) (hw i (mem_range.mp hi)).le)
    simp only [tNorm, roots_sqrt, ops_re, hre, twFn, max_eq_left hS]
    exact ⟨Real.sq_sqrt hS, Real.sqrt_nonneg _⟩

theorem sideFac_sq (close1 : ℝ → Bool) (a : Axis ℝ) (ha : 0 < a.fl ∧ 0 < a.fr) (k : Nat) :
    (sideFac close1 (fun f => f ^ ((1 : ℝ) / 2)) a k) ^ 2 = sideFac close1 (fun f => f) a k := by
  have h1 : (a.fl ^ ((1 : ℝ) / 2)) ^ 2 = a.fl := by
    rw [← Real.sqrt_eq_rpow, Real.sq_sqrt ha.1.le]
  have h2 : (a.fr ^ ((1 : ℝ) / 2)) ^ 2 = a.fr := by
    rw [← Real.sqrt_eq_rpow, Real.sq_sqrt ha.2.le]
  unfold sideFac
  split_ifs <;> simp only [mul_pow, h1, h2, one_pow, mul_one, one_mul]

theorem bfac_sq (close1 : ℝ → Bool) (axes : List (Axis ℝ)) (h : axesPos axes) (i : Nat) :
    (bfac close1 (fun f => f ^ ((1 : ℝ) / 2)) axes i) ^ 2 = bfac close1 (fun f => f) axes i := by
  induction axes generalizing i with
  | nil => simp [bfac]
  | cons a l ih =>
    simp only [bfac, mul_pow]
    rw [sideFac_sq close1 a (h a (by simp)), ih (fun b hb => h b (by simp [hb]))]

theorem dNorm_two_sq (close1 : ℝ → Bool) (u : Bool) (axes : List (Axis ℝ)) (w : TW ℝ)
    (hw : twPos w (axesSize axes)) (ha : axesPos axes) (x : Nat → 𝕜) :
    (dNorm (ops 𝕜) (roots close1) u axes w .two x) ^ 2 =
        ∑ i ∈ range (axesSize axes), ‖x i‖ ^ 2 * dW close1 u axes w .two i ∧
      0 ≤ dNorm (ops 𝕜) (roots close1) u axes w .two x := by
  unfold dNorm dW
  simp only [roots_close1]
  by_cases h : scalesBoundary close1 u axes w .two = true
  · simp only [h, ↓reduceIte]
    obtain ⟨h1, h2⟩ := tNorm_two_sq (𝕜 := 𝕜) close1 w (axesSize axes) hw
      (fun i => x i * (ops 𝕜).rK (bfac close1 (fun f => (roots close1).rpow f (Expo.inv .two)) axes i))
    refine ⟨?_, h2⟩
    rw [h1]
    refine Finset.sum_congr rfl (fun i _ => ?_)
    have hb := bfac_sq close1 axes ha i
    have hpos := bfac_pos close1 (fun f => f ^ ((1 : ℝ) / 2)) (fun f hf => Real.rpow_pos_of_pos hf _) axes ha i
    simp only [ops_rK, roots_rpow, Expo.inv, norm_mul, RCLike.norm_ofReal, abs_of_pos hpos, mul_pow, hb]
    ring
  · simp only [h]
    exact tNorm_two_sq close1 w (axesSize axes) hw x

theorem maxTo_mul_left (k : ℝ) (hk : 0 ≤ k) (n : Nat) (f : Nat → ℝ) :
    maxTo n (fun i => k * f i) = k * maxTo n f := by
  induction n with
  | zero => simp [maxTo]
  | succ n ih => simp only [maxTo, ih, mul_max_of_nonneg _ _ hk]

theorem maxTo_nonneg (n : Nat) (f : Nat → ℝ) : 0 ≤ maxTo n f := by
  induction n with
  | zero => simp [maxTo]
  | succ n ih => simp only [maxTo]; exact le_max_of_le_left ih

theorem maxTo_mono (n : Nat) (f g : Nat → ℝ) (h : ∀ i, i < n → f i ≤ g i) :
    maxTo n f ≤ maxTo n g := by
  induction n with
  | zero => simp [maxTo]
  | succ n ih =>
    simp only [maxTo]
    exact max_le_max (ih (fun i hi => h i (by omega))) (h n (by omega))

theorem maxTo_add_le (n : Nat) (f g : Nat → ℝ) :
    maxTo n (fun i => f i + g i) ≤ maxTo n f + maxTo n g := by
  induction n with
  | zero => simp [maxTo]
  | succ n ih =>
    simp only [maxTo]
    refine max_le ?_ ?_
    · exact ih.trans (add_le_add (le_max_left _ _) (le_max_left _ _))
    · exact add_le_add (le_max_right _ _) (le_max_right _ _)

/-- weighted ℓ² Minkowski inequality -/
theorem l2_tri (n : Nat) (ω : Nat → ℝ) (hω : ∀ i, i < n → 0 ≤ ω i) (x y : Nat → 𝕜) :
    Real.sqrt (∑ i ∈ range n, ‖x i + y i‖ ^ 2 * ω i) ≤
      Real.sqrt (∑ i ∈ range n, ‖x i‖ ^ 2 * ω i) + Real.sqrt (∑ i ∈ range n, ‖y i‖ ^ 2 * ω i) := by
  set A := ∑ i ∈ range n, ‖x i‖ ^ 2 * ω i
  set B := ∑ i ∈ range n, ‖y i‖ ^ 2 * ω i
  set C := ∑ i ∈ range n, ‖x i‖ * ‖y i‖ * ω i
  have hA : 0 ≤ A := Finset.sum_nonneg (fun i hi => mul_nonneg (sq_nonneg _) (hω i (mem_range.mp hi)))
  have hB : 0 ≤ B := Finset.sum_nonneg (fun i hi => mul_nonneg (sq_nonneg _) (hω i (mem_range.mp hi)))
  have hC2 : C ^ 2 ≤ A * B := by
    apply Finset.sum_sq_le_sum_mul_sum_of_sq_le_mul
    · intro i hi; exact mul_nonneg (sq_nonneg _) (hω i (mem_range.mp hi))
    · intro i hi; exact mul_nonneg (sq_nonneg _) (hω i (mem_range.mp hi))
    · intro i _; exact le_of_eq (by ring)
  have hC : C ≤ Real.sqrt A * Real.sqrt B := by
    rw [← Real.sqrt_mul hA]
    exact Real.le_sqrt_of_sq_le hC2
  have hsum : ∑ i ∈ range n, ‖x i + y i‖ ^ 2 * ω i ≤ A + 2 * C + B := by
    have : A + 2 * C + B = ∑ i ∈ range n, (‖x i‖ + ‖y i‖) ^ 2 * ω i := by
      simp only [A, B, C, Finset.mul_sum, ← Finset.sum_add_distrib]
      exact Finset.sum_congr rfl (fun i _ => by ring)
    rw [this]
    refine Finset.sum_le_sum (fun i hi => ?_)
    have h1 : ‖x i + y i‖ ≤ ‖x i‖ + ‖y i‖ := norm_add_le _ _
    have h2 : ‖x i + y i‖ ^ 2 ≤ (‖x i‖ + ‖y i‖) ^ 2 := by gcongr
    exact mul_le_mul_of_nonneg_right h2 (hω i (mem_range.mp hi))
  rw [Real.sqrt_le_iff]
  refine ⟨by positivity, hsum.trans ?_⟩
  have : (Real.sqrt A + Real.sqrt B) ^ 2 = A + 2 * (Real.sqrt A * Real.sqrt B) + B := by
    rw [add_sq, Real.sq_sqrt hA, Real.sq_sqrt hB]; ring
  rw [this]; linarith

/-! ### a concrete instance (used for the non-vacuity examples in `Props/C02.lean`) -/

/-- array-weighted product of a constant-weighted tensor space and a discretized space with
both end nodes on the boundary -/
noncomputable def exSpace : Space ℝ :=
  .prod 2 (.arr fun k => (k : ℝ) + 1) .two
    (fun k => if k = 0 then .tens 3 (.const 2) .two
      else .discr true [⟨3, 1 / 2, 1 / 2⟩] (.const (1 / 2)) .two)

noncomputable def exEl : El ℝ := .tup (fun _ => .vec (fun i => (i : ℝ) + 1))

theorem exSpace_pos : SpacePos exSpace := by
  refine ⟨fun k _ => by simp only [pwFn]; positivity, fun k _ => ?_⟩
  by_cases h : k = 0
  · simp only [h, ↓reduceIte, SpacePos, twPos, twFn]; intro _ _; norm_num
  · simp only [h, ↓reduceIte, SpacePos, twPos, twFn, axesPos]
    refine ⟨fun _ _ => by norm_num, fun a ha => ?_⟩
    simp only [List.mem_singleton] at ha; subst ha; norm_num

theorem exEl_shaped : Shaped exSpace exEl := by
  intro k
  by_cases h : k = 0 <;> simp [h, Shaped]

end OdlModel.C02
