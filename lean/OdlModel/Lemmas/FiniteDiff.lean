/-
Helper lemmas for C13: closed form of the in-order execution of a `finite_diff` leaf,
the pairing `Σ g·(D f)` as interior sums plus a bilinear form in the six corner symbols,
summation by parts, and the verified corner checker `adjOK`.
-/
import OdlModel.Model.FiniteDiff
import Mathlib.Algebra.BigOperators.Group.Finset.Basic
import Mathlib.Algebra.BigOperators.Ring.Finset
import Mathlib.Algebra.BigOperators.Intervals
import Mathlib.Data.Fintype.Basic
import Mathlib.Tactic.Ring
import Mathlib.Tactic.LinearCombination

namespace OdlModel.FiniteDiff
open Finset

instance : Fintype Corner :=
  Fintype.ofList [.L0, .L1, .L2, .R2, .R1, .R0] (by intro x; cases x <;> simp)

section closed
variable {K : Type} [CommRing K]

/-- sum of the accumulations that land on row `i` -/
def accSum (n : Nat) (c : K) (f : Nat → K) : List Acc → Nat → K
  | [], _ => 0
  | a :: as, i => (if i = a.tgt.pos n then evalTerms n c f a.terms else 0) + accSum n c f as i

theorem foldl_accStep (n : Nat) (c : K) (f : Nat → K) (accs : List Acc) (o : Nat → K) (i : Nat) :
    (accs.foldl (accStep n c f) o) i = o i + accSum n c f accs i := by
  induction accs generalizing o with
  | nil => simp [accSum]
  | cons a as ih =>
    simp only [List.foldl_cons, ih, accSum, accStep]
    split_ifs <;> ring

/-- Closed form of the program-order execution. -/
theorem fdNum_closed (t : Table) (n : Nat) (hn : 2 ≤ n) (c : K) (f : Nat → K) (i : Nat) :
    fdNum t n c f i =
      (if i = 0 then evalTerms n c f t.row0
       else if i = n - 1 then evalTerms n c f t.rowN
       else interior t n f i) + accSum n c f t.accs i := by
  unfold fdNum
  simp only [foldl_accStep, assign]
  have : n - 1 ≠ 0 := by omega
  split_ifs <;> simp_all


theorem sum_peel (m : Nat) (h : Nat → K) :
    ∑ i ∈ range (m + 2), h i = h 0 + h (m + 1) + ∑ k ∈ range m, h (k + 1) := by
  rw [sum_range_succ, sum_range_succ']
  ring

/-- Σ_i g_i * accSum_i = Σ_a g(pos a) * val a, when all targets are inside -/
def accPair (n : Nat) (c : K) (f g : Nat → K) : List Acc → K
  | [] => 0
  | a :: as => g (a.tgt.pos n) * evalTerms n c f a.terms + accPair n c f g as

theorem sum_accSum (n : Nat) (c : K) (f g : Nat → K) (accs : List Acc)
    (hv : ∀ a ∈ accs, a.tgt.pos n < n) :
    ∑ i ∈ range n, g i * accSum n c f accs i = accPair n c f g accs := by
  induction accs with
  | nil => simp [accSum, accPair]
  | cons a as ih =>
    have h1 : a.tgt.pos n < n := hv a (by simp)
    have h2 : ∀ a ∈ as, a.tgt.pos n < n := fun b hb => hv b (by simp [hb])
    simp only [accSum, accPair, mul_add, sum_add_distrib, ih h2]
    congr 1
    simp [mul_ite, Finset.sum_ite_eq', h1]

theorem pair_closed (t : Table) (m : Nat) (c : K) (f g : Nat → K)
    (hv : ∀ a ∈ t.accs, a.tgt.pos (m + 2) < m + 2) :
    ∑ i ∈ range (m + 2), g i * fdNum t (m + 2) c f i =
      g 0 * evalTerms (m + 2) c f t.row0 + g (m + 1) * evalTerms (m + 2) c f t.rowN
      + accPair (m + 2) c f g t.accs
      + ((t.bm : K) * ∑ k ∈ range m, g (k + 1) * f k
         + (t.b0 : K) * ∑ k ∈ range m, g (k + 1) * f (k + 1)
         + (t.bp : K) * ∑ k ∈ range m, g (k + 1) * f (k + 2)) := by
  simp only [fdNum_closed t (m + 2) (by omega) c f, mul_add, sum_add_distrib,
    sum_accSum _ c f g t.accs hv]
  rw [sum_peel]
  simp only [mul_sum, ← sum_add_distrib]
  have : ∀ k ∈ range m, g (k + 1) * (if k + 1 = 0 then evalTerms (m + 2) c f t.row0
      else if k + 1 = m + 2 - 1 then evalTerms (m + 2) c f t.rowN else interior t (m + 2) f (k + 1))
      = (t.bm : K) * (g (k + 1) * f k) + (t.b0 : K) * (g (k + 1) * f (k + 1)) + (t.bp : K) * (g (k + 1) * f (k + 2)) := by
    intro k hk
    have hk' : k < m := mem_range.mp hk
    have e1 : ¬ (k + 1 = 0) := by omega
    have e2 : ¬ (k + 1 = m + 2 - 1) := by omega
    have e3 : 1 ≤ k + 1 ∧ k + 1 + 2 ≤ m + 2 := by omega
    simp only [e1, e2, if_false, interior, e3, and_self, if_true]
    simp only [Nat.add_sub_cancel]
    ring
  rw [sum_congr rfl this]
  simp
  ring


/-- summation by parts on the interior band -/
theorem sum_by_parts (m : Nat) (g f : Nat → K) :
    ∑ k ∈ range m, g (k + 1) * f (k + 2) - ∑ k ∈ range m, f (k + 1) * g k
      = g m * f (m + 1) - g 0 * f 1 := by
  induction m with
  | zero => simp
  | succ m ih =>
    rw [sum_range_succ, sum_range_succ]
    linear_combination ih

/-- a monomial `coef · g[s] · f[r]` of the corner form -/
abbrev Mono := Int × Corner × Corner

def evalMonos (G F : Corner → K) : List Mono → K
  | [] => 0
  | (q, s, r) :: ms => (q : K) * G s * F r + evalMonos G F ms

theorem evalMonos_append (G F : Corner → K) (a b : List Mono) :
    evalMonos G F (a ++ b) = evalMonos G F a + evalMonos G F b := by
  induction a with
  | nil => simp [evalMonos]
  | cons x xs ih => obtain ⟨q, s, r⟩ := x; simp [evalMonos, ih]; ring

def monosOfTerms (s : Corner) : List Term → List Mono
  | [] => []
  | t :: ts => (match t.src with | some r => [(t.coef, s, r)] | none => []) ++ monosOfTerms s ts

def monosOfAccs : List Acc → List Mono
  | [] => []
  | a :: as => monosOfTerms a.tgt a.terms ++ monosOfAccs as

/-- the corner part of `Σ g·(D f)` as a formal list of monomials (pad_const = 0) -/
def monos (t : Table) : List Mono :=
  monosOfTerms .L0 t.row0 ++ monosOfTerms .R0 t.rowN ++ monosOfAccs t.accs

def swapMonos (ms : List Mono) : List Mono := ms.map (fun x => (x.1, x.2.2, x.2.1))

theorem evalMonos_swap (G F : Corner → K) (ms : List Mono) :
    evalMonos G F (swapMonos ms) = evalMonos F G ms := by
  induction ms with
  | nil => simp [swapMonos, evalMonos]
  | cons x xs ih =>
    obtain ⟨q, s, r⟩ := x
    simp only [swapMonos, List.map_cons, evalMonos] at ih ⊢
    rw [ih]; ring

theorem evalTerms_monos (n : Nat) (f g : Nat → K) (s : Corner) (ts : List Term) :
    g (s.pos n) * evalTerms n 0 f ts
      = evalMonos (fun c => g (c.pos n)) (fun c => f (c.pos n)) (monosOfTerms s ts) := by
  induction ts with
  | nil => simp [evalTerms, monosOfTerms, evalMonos]
  | cons t ts ih =>
    obtain ⟨q, src⟩ := t
    cases src with
    | none => simp [evalTerms, evalTerm, monosOfTerms, ih]
    | some r => simp [evalTerms, evalTerm, monosOfTerms, evalMonos, ← ih, mul_add]; ring

theorem accPair_monos (n : Nat) (f g : Nat → K) (accs : List Acc) :
    accPair n 0 f g accs
      = evalMonos (fun c => g (c.pos n)) (fun c => f (c.pos n)) (monosOfAccs accs) := by
  induction accs with
  | nil => simp [accPair, monosOfAccs, evalMonos]
  | cons a as ih => simp [accPair, monosOfAccs, evalMonos_append, ih, evalTerms_monos]

/-- formal coefficient of `g[s]·f[r]` -/
def coefAt (s r : Corner) : List Mono → Int
  | [] => 0
  | (q, s', r') :: ms => (if s' = s ∧ r' = r then q else 0) + coefAt s r ms

def allCorners : List Corner := [.L0, .L1, .L2, .R2, .R1, .R0]

/-- the checker: every formal coefficient vanishes -/
def allZero (ms : List Mono) : Bool :=
  allCorners.all fun s => allCorners.all fun r => coefAt s r ms == 0

theorem evalMonos_eq_sum (G F : Corner → K) (ms : List Mono) :
    evalMonos G F ms = ∑ s : Corner, ∑ r : Corner, (coefAt s r ms : K) * G s * F r := by
  induction ms with
  | nil => simp [evalMonos, coefAt]
  | cons x xs ih =>
    obtain ⟨q, s', r'⟩ := x
    simp only [evalMonos, coefAt, ih, Int.cast_add, add_mul, sum_add_distrib]
    congr 1
    simp [ite_and, Finset.sum_ite_eq, apply_ite, ite_mul]

theorem allZero_sound (G F : Corner → K) (ms : List Mono) (h : allZero ms = true) :
    evalMonos G F ms = 0 := by
  rw [evalMonos_eq_sum]
  have hz : ∀ s r : Corner, coefAt s r ms = 0 := by
    intro s r
    simp only [allZero, List.all_eq_true, beq_iff_eq] at h
    exact h s (by cases s <;> simp [allCorners]) r (by cases r <;> simp [allCorners])
  simp [hz]



/-- what summation by parts leaves over from the two interior bands -/
def bandMonos (t : Table) : List Mono :=
  [(t.bp, .R1, .R0), (-t.bp, .L0, .L1), (-t.bm, .R0, .R1), (t.bm, .L1, .L0)]

/-- The verified checker: `t'` is minus the transpose of `t` (for `pad_const = 0`), as a
formal identity in the six corner symbols plus the relation between the interior bands. -/
def adjOK (t t' : Table) : Bool :=
  (t'.bm == -t.bp) && (t'.b0 == -t.b0) && (t'.bp == -t.bm) &&
  allZero (monos t ++ swapMonos (monos t') ++ bandMonos t)

theorem Corner.pos_lt {n : Nat} {c : Corner} (h : c.need ≤ n) : c.pos n < n := by
  cases c <;> simp [Corner.need, Corner.pos] at * <;> omega

theorem pair_monos (t : Table) (m : Nat) (f g : Nat → K)
    (hv : ∀ a ∈ t.accs, a.tgt.pos (m + 2) < m + 2) :
    ∑ i ∈ range (m + 2), g i * fdNum t (m + 2) 0 f i =
      evalMonos (fun c => g (c.pos (m + 2))) (fun c => f (c.pos (m + 2))) (monos t)
      + ((t.bm : K) * ∑ k ∈ range m, g (k + 1) * f k
         + (t.b0 : K) * ∑ k ∈ range m, g (k + 1) * f (k + 1)
         + (t.bp : K) * ∑ k ∈ range m, g (k + 1) * f (k + 2)) := by
  rw [pair_closed t m 0 f g hv, monos, evalMonos_append, evalMonos_append,
    ← evalTerms_monos, ← evalTerms_monos, accPair_monos]
  simp [Corner.pos]

/-- Generic adjoint theorem: a pair of leaves accepted by the checker is a transposed pair
on every axis length `m + 2` on which both leaves are executable. -/
theorem pair_adjoint (t t' : Table) (h : adjOK t t' = true) (m : Nat) (f g : Nat → K)
    (hv : ∀ a ∈ t.accs, a.tgt.pos (m + 2) < m + 2)
    (hv' : ∀ a ∈ t'.accs, a.tgt.pos (m + 2) < m + 2) :
    ∑ i ∈ range (m + 2), g i * fdNum t (m + 2) 0 f i
      + ∑ j ∈ range (m + 2), f j * fdNum t' (m + 2) 0 g j = 0 := by
  simp only [adjOK, Bool.and_eq_true, beq_iff_eq] at h
  obtain ⟨⟨⟨hm, h0⟩, hp⟩, hz⟩ := h
  rw [pair_monos t m f g hv, pair_monos t' m g f hv', hm, h0, hp]
  generalize hG : (fun c : Corner => g (c.pos (m + 2))) = G
  generalize hF : (fun c : Corner => f (c.pos (m + 2))) = F
  have key := allZero_sound G F _ hz
  rw [evalMonos_append, evalMonos_append, evalMonos_swap] at key
  simp only [bandMonos, evalMonos] at key
  have gR1 : G .R1 = g m := by rw [← hG]; simp [Corner.pos]
  have gR0 : G .R0 = g (m + 1) := by rw [← hG]; simp [Corner.pos]
  have gL0 : G .L0 = g 0 := by rw [← hG]; simp [Corner.pos]
  have gL1 : G .L1 = g 1 := by rw [← hG]; simp [Corner.pos]
  have fR1 : F .R1 = f m := by rw [← hF]; simp [Corner.pos]
  have fR0 : F .R0 = f (m + 1) := by rw [← hF]; simp [Corner.pos]
  have fL0 : F .L0 = f 0 := by rw [← hF]; simp [Corner.pos]
  have fL1 : F .L1 = f 1 := by rw [← hF]; simp [Corner.pos]
  rw [gR1, gR0, gL0, gL1, fR1, fR0, fL0, fL1] at key
  have s1 := sum_by_parts m g f
  have s2 := sum_by_parts m f g
  have s0 : ∑ k ∈ range m, f (k + 1) * g (k + 1) = ∑ k ∈ range m, g (k + 1) * f (k + 1) :=
    sum_congr rfl (fun k _ => mul_comm _ _)
  push_cast at key ⊢
  rw [s0]
  linear_combination key + (t.bp : K) * s1 - (t.bm : K) * s2


/-! ### size checks -/

theorem le_foldl_max (l : List Nat) (a : Nat) :
    a ≤ l.foldl max a ∧ ∀ x ∈ l, x ≤ l.foldl max a := by
  induction l generalizing a with
  | nil => simp
  | cons y ys ih =>
    simp only [List.foldl_cons, List.mem_cons, forall_eq_or_imp]
    obtain ⟨h1, h2⟩ := ih (max a y)
    exact ⟨le_trans (le_max_left a y) h1, le_trans (le_max_right a y) h1, h2⟩

theorem Table.two_le_need (t : Table) : 2 ≤ t.need := (le_foldl_max _ 2).1

theorem Table.tgt_need_le (t : Table) {a : Acc} (ha : a ∈ t.accs) : a.tgt.need ≤ t.need := by
  refine (le_foldl_max _ 2).2 _ ?_
  simp only [Table.corners, List.map_append, List.mem_append, List.mem_map]
  exact Or.inr ⟨a.tgt, ⟨a, ha, rfl⟩, rfl⟩

theorem Table.accs_fit (t : Table) {n : Nat} (h : t.need ≤ n) :
    ∀ a ∈ t.accs, a.tgt.pos n < n :=
  fun _ ha => Corner.pos_lt (le_trans (t.tgt_need_le ha) h)

theorem sizeCheck_none {guards : List (Nat × Option Pad)} {t : Table} {p : Pad} {n : Nat}
    (h : sizeCheck guards t p n = none) : t.need ≤ n := by
  unfold sizeCheck at h
  split_ifs at h with h1 h2
  omega

/-! ### N-d lifting -/

/-- sum over the index box of an array of shape `(shape 0, shape 1, shape 2)` -/
def boxSum (shape : Nat → Nat) (F : Idx → K) : K :=
  ∑ i ∈ range (shape 0), ∑ j ∈ range (shape 1), ∑ k ∈ range (shape 2), F (i, j, k)

/-- a 1-d operator applied to every line along axis `a` -/
def lift (a : Nat) (A : (Nat → K) → Nat → K) (F : Idx → K) : Idx → K :=
  fun x => A (fun q => F (x.set a q)) (x.get a)

theorem boxSum_add (shape : Nat → Nat) (F G : Idx → K) :
    boxSum shape (fun x => F x + G x) = boxSum shape F + boxSum shape G := by
  simp [boxSum, sum_add_distrib]

theorem boxSum_neg (shape : Nat → Nat) (F : Idx → K) :
    boxSum shape (fun x => - F x) = - boxSum shape F := by
  simp [boxSum]

/-- Fibre lifting: a 1-d pairing identity along axis `a` lifts to the box. -/
theorem boxSum_lift_pair (shape : Nat → Nat) (a : Nat) (ha : a < 3) (A B : (Nat → K) → Nat → K)
    (h1 : ∀ f g : Nat → K, ∑ i ∈ range (shape a), (g i * A f i + f i * B g i) = 0)
    (F G : Idx → K) :
    boxSum shape (fun x => G x * lift a A F x + F x * lift a B G x) = 0 := by
  unfold boxSum lift
  rcases (show a = 0 ∨ a = 1 ∨ a = 2 by omega) with rfl | rfl | rfl
  · rw [sum_comm]
    refine sum_eq_zero (fun j _ => ?_)
    rw [sum_comm]
    refine sum_eq_zero (fun k _ => ?_)
    exact h1 (fun q => F (q, j, k)) (fun q => G (q, j, k))
  · refine sum_eq_zero (fun i _ => ?_)
    rw [sum_comm]
    refine sum_eq_zero (fun k _ => ?_)
    exact h1 (fun q => F (i, q, k)) (fun q => G (i, q, k))
  · refine sum_eq_zero (fun i _ => sum_eq_zero (fun j _ => ?_))
    exact h1 (fun q => F (i, j, q)) (fun q => G (i, j, q))

end closed
end OdlModel.FiniteDiff

/-! ### arrays of ANY ndim (round 4): iterated box sum and fibre lifting -/

namespace OdlModel.FiniteDiff
open Finset
section ndN
variable {K : Type} [CommRing K]

theorem IdxN.set_self (x : IdxN) (a k : Nat) : (x.set a k) a = k := by simp [IdxN.set]

theorem IdxN.set_set (x : IdxN) (a k k' : Nat) : (x.set a k).set a k' = x.set a k' := by
  funext i; simp only [IdxN.set]; split_ifs <;> rfl

theorem IdxN.set_comm (x : IdxN) {a b : Nat} (h : a ≠ b) (k l : Nat) :
    (x.set a k).set b l = (x.set b l).set a k := by
  funext i; simp only [IdxN.set]; split_ifs <;> simp_all

/-- iterated sum over the listed axes: the position on axis `a` runs over `range (shape a)` -/
def sumAxes (shape : Nat → Nat) : List Nat → (IdxN → K) → IdxN → K
  | [], F, x => F x
  | a :: as, F, x => ∑ k ∈ range (shape a), sumAxes shape as F (x.set a k)

/-- plain sum over the index box of an array with `d` axes (any `d`) -/
def boxSumN (shape : Nat → Nat) (d : Nat) (F : IdxN → K) : K :=
  sumAxes shape (List.range d) F (fun _ => 0)

theorem sumAxes_zero (shape : Nat → Nat) (l : List Nat) (x : IdxN) :
    sumAxes shape l (fun _ => (0 : K)) x = 0 := by
  induction l generalizing x with
  | nil => rfl
  | cons a l ih => simp [sumAxes, ih]

theorem sumAxes_add (shape : Nat → Nat) (l : List Nat) (F G : IdxN → K) (x : IdxN) :
    sumAxes shape l (fun y => F y + G y) x = sumAxes shape l F x + sumAxes shape l G x := by
  induction l generalizing x with
  | nil => rfl
  | cons a l ih => simp [sumAxes, ih, sum_add_distrib]

theorem sumAxes_neg (shape : Nat → Nat) (l : List Nat) (F : IdxN → K) (x : IdxN) :
    sumAxes shape l (fun y => - F y) x = - sumAxes shape l F x := by
  induction l generalizing x with
  | nil => rfl
  | cons a l ih => simp [sumAxes, ih]

theorem sumAxes_sum (shape : Nat → Nat) (l : List Nat) (s : Finset Nat) (F : Nat → IdxN → K)
    (x : IdxN) :
    sumAxes shape l (fun y => ∑ a ∈ s, F a y) x = ∑ a ∈ s, sumAxes shape l (F a) x := by
  induction l generalizing x with
  | nil => rfl
  | cons b l ih =>
    simp only [sumAxes, ih]
    rw [sum_comm]

/-- an axis not in the list can be summed innermost -/
theorem sumAxes_push (shape : Nat → Nat) (a : Nat) (l : List Nat) (ha : a ∉ l) (Φ : IdxN → K)
    (x : IdxN) :
    ∑ k ∈ range (shape a), sumAxes shape l Φ (x.set a k)
      = sumAxes shape l (fun y => ∑ k ∈ range (shape a), Φ (y.set a k)) x := by
  induction l generalizing x with
  | nil => rfl
  | cons b l ih =>
    have hab : a ≠ b := fun h => ha (h ▸ List.mem_cons_self)
    have hal : a ∉ l := fun h => ha (List.mem_cons_of_mem _ h)
    simp only [sumAxes]
    rw [sum_comm]
    refine sum_congr rfl (fun j _ => ?_)
    rw [← ih hal]
    refine sum_congr rfl (fun k _ => ?_)
    rw [IdxN.set_comm x hab]

/-- Fibre lifting, any number of axes: a function whose sum along every line of axis `a`
vanishes sums to zero over any box containing axis `a` once. -/
theorem sumAxes_fibre_zero (shape : Nat → Nat) (a : Nat) (l : List Nat) (hl : l.Nodup)
    (ha : a ∈ l) (Φ : IdxN → K)
    (hΦ : ∀ y : IdxN, ∑ k ∈ range (shape a), Φ (y.set a k) = 0) (x : IdxN) :
    sumAxes shape l Φ x = 0 := by
  induction l generalizing x with
  | nil => simp at ha
  | cons b l ih =>
    rw [List.nodup_cons] at hl
    by_cases hab : b = a
    · subst hab
      simp only [sumAxes]
      rw [sumAxes_push shape b l hl.1]
      simp only [hΦ]
      exact sumAxes_zero shape l x
    · have : a ∈ l := by
        rcases List.mem_cons.1 ha with h | h
        · exact absurd h.symm hab
        · exact h
      simp only [sumAxes]
      exact sum_eq_zero (fun k _ => ih hl.2 this _)

/-- Fibre lifting of a 1-d pairing identity along axis `a < d` to the `d`-dimensional box. -/
theorem boxSumN_lift_pair (shape : Nat → Nat) (d a : Nat) (ha : a < d)
    (A B : (Nat → K) → Nat → K)
    (h1 : ∀ f g : Nat → K, ∑ i ∈ range (shape a), (g i * A f i + f i * B g i) = 0)
    (F G : IdxN → K) :
    boxSumN shape d (fun x => G x * A (fun q => F (x.set a q)) (x a)
        + F x * B (fun q => G (x.set a q)) (x a)) = 0 := by
  unfold boxSumN
  refine sumAxes_fibre_zero shape a _ List.nodup_range (List.mem_range.2 ha) _ (fun y => ?_) _
  simp only [IdxN.set_set, IdxN.set_self]
  exact h1 (fun q => F (y.set a q)) (fun k => G (y.set a k))

theorem boxSumN_add (shape : Nat → Nat) (d : Nat) (F G : IdxN → K) :
    boxSumN shape d (fun x => F x + G x) = boxSumN shape d F + boxSumN shape d G :=
  sumAxes_add shape _ F G _

theorem boxSumN_neg (shape : Nat → Nat) (d : Nat) (F : IdxN → K) :
    boxSumN shape d (fun x => - F x) = - boxSumN shape d F :=
  sumAxes_neg shape _ F _

theorem boxSumN_sum (shape : Nat → Nat) (d : Nat) (s : Finset Nat) (F : Nat → IdxN → K) :
    boxSumN shape d (fun x => ∑ a ∈ s, F a x) = ∑ a ∈ s, boxSumN shape d (F a) :=
  sumAxes_sum shape _ s F _

/-- the in-order accumulation `out = 0; for a: out += g a` is the sum -/
theorem foldl_add_eq_sum (g : Nat → K) (n : Nat) :
    (List.range n).foldl (fun s a => s + g a) 0 = ∑ a ∈ range n, g a := by
  induction n with
  | zero => rfl
  | succ n ih => rw [List.range_succ, List.foldl_append, ih, sum_range_succ]; rfl

/-- the in-order accumulation `out = 0; for a: out += u a; out -= v a` -/
theorem foldl_add_sub_eq_sum (u v : Nat → K) (n : Nat) :
    (List.range n).foldl (fun s a => s + u a - v a) 0 = ∑ a ∈ range n, (u a - v a) := by
  induction n with
  | zero => rfl
  | succ n ih =>
    rw [List.range_succ, List.foldl_append, ih, sum_range_succ]
    simp only [List.foldl_cons, List.foldl_nil]; ring

end ndN
end OdlModel.FiniteDiff

/-! ### the space inner product (round 4) -/

namespace OdlModel.FiniteDiff
open Finset
section innerL
variable {K : Type} [Field K]

theorem sumAxesL_eq (shape : Nat → Nat) (l : List Nat) (F : IdxN → K) (x : IdxN) :
    sumAxesL shape l F x = sumAxes shape l F x := by
  induction l generalizing x with
  | nil => rfl
  | cons a l ih =>
    simp only [sumAxesL, sumAxes, ih]
    exact foldl_add_eq_sum (fun k => sumAxes shape l F (x.set a k)) (shape a)

theorem sumAxes_mul_left (shape : Nat → Nat) (l : List Nat) (W : K) (F : IdxN → K) (x : IdxN) :
    sumAxes shape l (fun y => W * F y) x = W * sumAxes shape l F x := by
  induction l generalizing x with
  | nil => rfl
  | cons a l ih => simp only [sumAxes, ih, mul_sum]

/-- with per-axis constant cell sizes the weight does not depend on the point -/
theorem innerN_uniform (ω : Nat → K) (shape : Nat → Nat) (d : Nat) (σ : K → K)
    (X Y : IdxN → K) :
    innerN (axisWeight false shape ω) shape d σ X Y
      = cellWeight (fun a _ => ω a) d (fun _ => 0) * boxSumN shape d (fun x => X x * σ (Y x)) := by
  unfold innerN boxSumN
  rw [sumAxesL_eq, ← sumAxes_mul_left]
  rfl

end innerL
end OdlModel.FiniteDiff
