/-
Helper lemmas for C16, operator part (`_resize_discr`): cells added left and right sum to the
change of size; the denominators of `cell_sides` are non-zero for at least two grid points.
-/
import OdlModel.Model.Resize
import Mathlib.Tactic.LinearCombination
import Mathlib.Tactic.Ring
import Mathlib.Algebra.CharZero.Defs
import Mathlib.Data.Int.Cast.Lemmas
import Mathlib.Algebra.Order.Field.Basic
import Mathlib.Tactic.Linarith
import Mathlib.Tactic.NormNum
open OdlModel.Resize

namespace OdlModel.C16
variable {F : Type} [Field F] [CharZero F]

theorem numLR_sum (n nNew : Nat) (off : Option Int) :
    (numLR n nNew off).1 + (numLR n nNew off).2 = (nNew : Int) - n := by
  unfold numLR
  split_ifs with h
  · subst h; simp
  · cases off <;> simp

/-- an axis with at least two grid points, or one grid point that is not on both boundaries -/
def AxisOK (n : Nat) (bl br : Bool) : Prop := 2 ≤ n ∨ (n = 1 ∧ (bl = false ∨ br = false))

theorem denom_ne_zero (n : Nat) (bl br : Bool) (h : AxisOK n bl br) :
    (((n : Int) : F)) - (if bl then ((1 : Int) : F) / ((2 : Int) : F) else ((0 : Int) : F))
      - (if br then ((1 : Int) : F) / ((2 : Int) : F) else ((0 : Int) : F)) ≠ 0 := by
  have hn1 : 1 ≤ n := by rcases h with h | ⟨h, _⟩ <;> omega
  have key : ∀ k : Nat, k < 2 * n → ((n : F)) - (k : F) / 2 ≠ 0 := by
    intro k hk he
    have : ((2 * n : Nat) : F) = ((k : Nat) : F) := by push_cast; linear_combination 2 * he
    have := Nat.cast_injective this; omega
  rcases h with h | ⟨h, hb⟩
  · cases bl <;> cases br <;> simp only [Bool.false_eq_true, ↓reduceIte, Int.cast_natCast,
      Int.cast_zero, Int.cast_one, Int.cast_ofNat, sub_zero]
    · have := key 0 (by omega); simpa using this
    · have := key 1 (by omega); simpa using this
    · have := key 1 (by omega); simpa using this
    · have := key 2 (by omega); intro he; apply this; push_cast; linear_combination he
  · subst h
    rcases hb with rfl | rfl <;> cases ‹Bool› <;> norm_num


section ordered
variable {F : Type} [Field F] [LinearOrder F] [IsStrictOrderedRing F]

theorem cell_pos (a : Axis F) (hn : AxisOK a.n a.bl a.br) (hpos : a.lo < a.hi) : 0 < a.cell := by
  obtain ⟨lo, hi, n, bl, br⟩ := a
  simp only [Axis.cell]
  apply div_pos (sub_pos.2 hpos)
  rcases hn with h | ⟨h, hb⟩
  · have h2 : (2 : F) ≤ (n : F) := by exact_mod_cast h
    cases bl <;> cases br <;> simp <;> linarith
  · simp only at h hb
    subst h
    rcases hb with rfl | rfl <;> cases ‹Bool› <;> norm_num

end ordered
end OdlModel.C16
