/-
Helper lemmas for C16, operator part (`_resize_discr`): cells added left and right sum to the
change of size; the denominators of `cell_sides` are non-zero for at least two grid points.
-/
import OdlModel.Model.Resize
import Mathlib.Tactic.LinearCombination
import Mathlib.Tactic.Ring
import Mathlib.Algebra.CharZero.Defs
import Mathlib.Data.Int.Cast.Lemmas
import Mathlib.Algebra.Order.Field.Basic
import Mathlib.Tactic.Linarith
open OdlModel.Resize

namespace OdlModel.C16
variable {F : Type} [Field F] [CharZero F]

theorem numLR_sum (n nNew : Nat) (off : Option Int) :
    (numLR n nNew off).1 + (numLR n nNew off).2 = (nNew : Int) - n := by
  unfold numLR
  split_ifs with h
  · subst h; simp
  · cases off <;> simp

theorem cast_ne_zero_facts (n : Nat) (hn : 2 ≤ n) :
    (n : F) ≠ 0 ∧ (n : F) - 1 / 2 ≠ 0 ∧ (n : F) - 1 / 2 - 1 / 2 ≠ 0 := by
  refine ⟨?_, ?_, ?_⟩
  · exact Nat.cast_ne_zero.2 (by omega)
  · intro h
    have : ((2 * n : Nat) : F) = ((1 : Nat) : F) := by push_cast; linear_combination 2 * h
    have := Nat.cast_injective this; omega
  · intro h
    have : ((n : Nat) : F) = ((1 : Nat) : F) := by push_cast; linear_combination h
    have := Nat.cast_injective this; omega


section ordered
variable {F : Type} [Field F] [LinearOrder F] [IsStrictOrderedRing F]

theorem cell_pos (a : Axis F) (hn : 2 ≤ a.n) (hpos : a.lo < a.hi) : 0 < a.cell := by
  obtain ⟨lo, hi, n, bl, br⟩ := a
  have h2 : (2 : F) ≤ (n : F) := by exact_mod_cast hn
  simp only [Axis.cell]
  apply div_pos (sub_pos.2 hpos)
  cases bl <;> cases br <;> simp <;> linarith

end ordered
end OdlModel.C16
