/-
Helper lemmas for C14 (no property statements here).
-/
import OdlModel.Model.Partition
import Mathlib.Tactic.Ring
import Mathlib.Tactic.Linarith
import Mathlib.Tactic.FieldSimp
import Mathlib.Algebra.Order.Field.Rat

namespace OdlModel.Partition

/-- A state the real constructors can produce (checks of `RectGrid`, `IntervalProd`,
`RectPartition`): at least one node, strictly increasing nodes, all inside `[lo, hi]`. -/
structure Valid (P : Part1) : Prop where
  pos : 1 ≤ P.n
  mono : ∀ i, i + 1 < P.n → P.c i < P.c (i + 1)
  lo_le : P.lo ≤ P.c 0
  le_hi : P.c (P.n - 1) ≤ P.hi

/-- Not the single-point partition of a single-point set. -/
def Nondegenerate (P : Part1) : Prop := 2 ≤ P.n ∨ P.lo < P.hi

theorem bdry_zero (P : Part1) (h : 1 ≤ P.n) : P.bdry 0 = P.lo := by
  unfold Part1.bdry
  rw [if_neg (by omega), if_pos rfl]

theorem bdry_last (P : Part1) : P.bdry P.n = P.hi := by
  unfold Part1.bdry
  rw [if_pos (le_refl _)]

theorem bdry_ge (P : Part1) (k : Nat) (h : P.n ≤ k) : P.bdry k = P.hi := by
  unfold Part1.bdry
  rw [if_pos h]

theorem bdry_mid (P : Part1) (k : Nat) (h0 : 0 < k) (h1 : k < P.n) :
    P.bdry k = (P.c k + P.c (k - 1)) / 2 := by
  unfold Part1.bdry
  rw [if_neg (by omega), if_neg (by omega)]

theorem bdry_succ_mid (P : Part1) (k : Nat) (h1 : k + 1 < P.n) :
    P.bdry (k + 1) = (P.c (k + 1) + P.c k) / 2 := by
  rw [bdry_mid P (k + 1) (by omega) h1]; rfl

theorem Valid.c_mono {P : Part1} (hv : Valid P) {i j : Nat} (hij : i ≤ j) (hj : j < P.n) :
    P.c i ≤ P.c j := by
  induction j with
  | zero => have : i = 0 := by omega
            subst this; exact le_refl _
  | succ j ih =>
    rcases Nat.lt_or_ge i (j + 1) with h | h
    · have := ih (by omega) (by omega)
      have := hv.mono j hj
      linarith
    · have : i = j + 1 := by omega
      subst this; exact le_refl _

end OdlModel.Partition
