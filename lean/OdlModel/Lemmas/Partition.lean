/-
Helper lemmas for C14 (no property statements here).
-/
import OdlModel.Model.Partition
import Mathlib.Tactic.Ring
import Mathlib.Tactic.Linarith
import Mathlib.Tactic.FieldSimp
import Mathlib.Algebra.Order.Field.Rat
import Mathlib.Data.Rat.Floor
import Mathlib.Tactic.Positivity
import Mathlib.Data.List.Sort

namespace OdlModel.Partition

/-- A state the real constructors can produce (checks of `RectGrid`, `IntervalProd`,
`RectPartition`): at least one node, strictly increasing nodes, all inside `[lo, hi]`. -/
structure Valid (P : Part1) : Prop where
  pos : 1 ≤ P.n
  mono : ∀ i, i + 1 < P.n → P.c i < P.c (i + 1)
  lo_le : P.lo ≤ P.c 0
  le_hi : P.c (P.n - 1) ≤ P.hi

/-- Not the single-point partition of a single-point set. -/
def Nondegenerate (P : Part1) : Prop := 2 ≤ P.n ∨ P.lo < P.hi

theorem bdry_zero (P : Part1) (h : 1 ≤ P.n) : P.bdry 0 = P.lo := by
  unfold Part1.bdry
  rw [if_neg (by omega), if_pos rfl]

theorem bdry_last (P : Part1) : P.bdry P.n = P.hi := by
  unfold Part1.bdry
  rw [if_pos (le_refl _)]

theorem bdry_ge (P : Part1) (k : Nat) (h : P.n ≤ k) : P.bdry k = P.hi := by
  unfold Part1.bdry
  rw [if_pos h]

theorem bdry_mid (P : Part1) (k : Nat) (h0 : 0 < k) (h1 : k < P.n) :
    P.bdry k = (P.c k + P.c (k - 1)) / 2 := by
  unfold Part1.bdry
  rw [if_neg (by omega), if_neg (by omega)]

theorem bdry_succ_mid (P : Part1) (k : Nat) (h1 : k + 1 < P.n) :
    P.bdry (k + 1) = (P.c (k + 1) + P.c k) / 2 := by
  rw [bdry_mid P (k + 1) (by omega) h1]; rfl

theorem Valid.c_mono {P : Part1} (hv : Valid P) {i j : Nat} (hij : i ≤ j) (hj : j < P.n) :
    P.c i ≤ P.c j := by
  induction j with
  | zero => have : i = 0 := by omega
            subst this; exact le_refl _
  | succ j ih =>
    rcases Nat.lt_or_ge i (j + 1) with h | h
    · have := ih (by omega) (by omega)
      have := hv.mono j hj
      linarith
    · have : i = j + 1 := by omega
      subst this; exact le_refl _


theorem bdry_lt_succ (P : Part1) (hv : Valid P) (hn : Nondegenerate P) (k : Nat)
    (hk : k < P.n) : P.bdry k < P.bdry (k + 1) := by
  rcases Nat.eq_zero_or_pos k with rfl | hk0
  · rw [bdry_zero P hv.pos]
    rcases Nat.lt_or_ge 1 P.n with h | h
    · rw [bdry_succ_mid P 0 h]
      have := hv.mono 0 h
      have := hv.lo_le
      linarith
    · rw [bdry_ge P 1 h]
      rcases hn with h2 | h2
      · omega
      · exact h2
  · rw [bdry_mid P k hk0 hk]
    have e : k - 1 + 1 = k := by omega
    have h1 := hv.mono (k - 1) (by omega)
    rw [e] at h1
    rcases Nat.lt_or_ge (k + 1) P.n with h | h
    · rw [bdry_succ_mid P k h]
      have := hv.mono k h
      linarith
    · rw [bdry_ge P (k + 1) h]
      have : k = P.n - 1 := by omega
      have := hv.le_hi
      subst k
      linarith

theorem Valid.c_strict {P : Part1} (hv : Valid P) {i j : Nat} (hij : i < j) (hj : j < P.n) :
    P.c i < P.c j := by
  have h1 := hv.mono i (by omega)
  have h2 := hv.c_mono (i := i + 1) (j := j) (by omega) hj
  linarith

theorem wf_of_valid (P : Part1) (hv : Valid P) : P.wf = true := by
  have h0 := hv.c_mono (i := 0) (j := P.n - 1) (by omega) (by have := hv.pos; omega)
  have := hv.lo_le
  have := hv.le_hi
  simp only [Part1.wf, Bool.and_eq_true, decide_eq_true_eq, List.all_eq_true, List.mem_range]
  refine ⟨⟨⟨⟨hv.pos, ?_⟩, by linarith⟩, hv.lo_le⟩, hv.le_hi⟩
  intro i hi
  exact hv.mono i (by omega)

theorem valid_of_wf (P : Part1) (h : P.wf = true) : Valid P := by
  simp only [Part1.wf, Bool.and_eq_true, decide_eq_true_eq, List.all_eq_true, List.mem_range] at h
  obtain ⟨⟨⟨⟨h1, h2⟩, _⟩, h4⟩, h5⟩ := h
  exact ⟨h1, fun i hi => h2 i (by omega), h4, h5⟩

theorem mk?_of_valid (P : Part1) (hv : Valid P) : P.mk? = some P := by
  unfold Part1.mk?; rw [if_pos (wf_of_valid P hv)]

theorem sliceIndices_pos (s e : Nat) (st : Int) (hst : 0 < st) (n : Nat) (hs : s ≤ n) (he : e ≤ n) :
    sliceIndices (some (s : Int)) (some (e : Int)) st n = ((s : Int), (e : Int)) := by
  unfold sliceIndices
  simp only []
  have h1 : ¬ st < 0 := by omega
  simp only [h1, if_false]
  have : ¬ ((s : Int) < 0) := by omega
  have : ¬ ((e : Int) < 0) := by omega
  simp [*]

/-- The sub-partition selected by cells `s, s+st, …` below `e`. -/
def subPart (P : Part1) (s e st : Nat) : Part1 :=
  ⟨(e - s - 1) / st + 1, fun i => P.c (s + i * st), P.bdry s, P.bdry e⟩

theorem node_ge_bdry (P : Part1) (hv : Valid P) (i : Nat) (hi : i < P.n) : P.bdry i ≤ P.c i := by
  rcases Nat.eq_zero_or_pos i with rfl | h0
  · rw [bdry_zero P hv.pos]; exact hv.lo_le
  · rw [bdry_mid P i h0 hi]
    have e : i - 1 + 1 = i := by omega
    have h1 := hv.mono (i - 1) (by omega)
    rw [e] at h1
    linarith

theorem node_le_bdry (P : Part1) (hv : Valid P) (i : Nat) (hi : i < P.n) : P.c i ≤ P.bdry (i + 1) := by
  rcases Nat.lt_or_ge (i + 1) P.n with h | h
  · rw [bdry_succ_mid P i h]
    have := hv.mono i h
    linarith
  · rw [bdry_ge P (i + 1) h]
    have : i = P.n - 1 := by omega
    subst this; exact hv.le_hi

theorem sub_valid (P : Part1) (hv : Valid P) (s e st : Nat) (hse : s < e) (hen : e ≤ P.n)
    (hst : 1 ≤ st) : Valid (subPart P s e st) := by
  have hdiv : (e - s - 1) / st * st ≤ e - s - 1 := Nat.div_mul_le_self _ _
  refine ⟨by simp [subPart], ?_, ?_, ?_⟩
  · intro i hi
    simp only [subPart] at hi ⊢
    have h1 : i + 1 ≤ (e - s - 1) / st := by omega
    have h2 : (i + 1) * st ≤ e - s - 1 := (Nat.le_div_iff_mul_le (by omega)).mp h1
    have h3 : (i + 1) * st = i * st + st := Nat.succ_mul i st
    exact hv.c_strict (by omega) (by omega)
  · simp only [subPart, Nat.zero_mul, Nat.add_zero]
    exact node_ge_bdry P hv s (by omega)
  · simp only [subPart, Nat.add_sub_cancel]
    have h1 : s + (e - s - 1) / st * st ≤ e - 1 := by omega
    have h2 := hv.c_mono h1 (by omega)
    have h3 := node_le_bdry P hv (e - 1) (by omega)
    have e1 : e - 1 + 1 = e := by omega
    rw [e1] at h3
    linarith

theorem getSlice_core (P : Part1) (hv : Valid P) (s e st : Nat) (hse : s < e) (hen : e ≤ P.n)
    (hst : 1 ≤ st) (step : Option Int) (hstep : step.getD 1 = (st : Int)) :
    P.getSlice (some (s : Int)) (some (e : Int)) step = some (subPart P s e st) := by
  have hstp : (0 : Int) < st := by omega
  unfold Part1.getSlice
  have c1 : ((some (s : Int)).isSome && (some (s : Int) == some (e : Int)) ||
      (some (s : Int) == some (P.n : Int))) = false := by
    simp; constructor <;> omega
  rw [c1]
  simp only [Bool.false_eq_true, if_false, hstep]
  rw [if_neg (by omega), sliceIndices_pos s e 1 (by omega) P.n (by omega) hen,
    sliceIndices_pos s e st hstp P.n (by omega) hen]
  simp only []
  rw [if_neg (by omega)]
  have hm : sliceLen (s : Int) (e : Int) (st : Int) = (e - s - 1) / st + 1 := by
    unfold sliceLen
    rw [if_pos hstp, if_pos (by omega)]
    have : ((e : Int) - s - 1) = ((e - s - 1 : Nat) : Int) := by omega
    rw [this]
    norm_cast
  have hf : (fun (i : Nat) => P.c ((s : Int) + (i : Int) * (st : Int)).toNat) =
      fun i => P.c (s + i * st) := by
    funext i
    have : ((s : Int) + (i : Int) * (st : Int)) = ((s + i * st : Nat) : Int) := by push_cast; ring
    rw [this, Int.toNat_natCast]
  rw [hm, hf, Int.toNat_natCast, Int.toNat_natCast]
  exact mk?_of_valid _ (sub_valid P hv s e st hse hen hst)

/-- `sum f n = f 0 + … + f (n-1)`. -/
def sumTo (f : Nat → Rat) : Nat → Rat
  | 0 => 0
  | k + 1 => sumTo f k + f k

theorem cell_size_eq_bdry_diff (P : Part1) (hn : 1 ≤ P.n) (i : Nat) (hi : i < P.n) :
    P.cellSize i = P.bdry (i + 1) - P.bdry i := by
  unfold Part1.cellSize
  rcases Nat.lt_or_ge P.n 2 with h1 | h2
  · have e : P.n = 1 := by omega
    have e0 : i = 0 := by omega
    subst e0
    rw [if_pos e, bdry_zero P hn, bdry_ge P (0 + 1) (by omega)]
  rw [if_neg (by omega)]
  rcases Nat.lt_or_ge (i + 1) P.n with h | h
  · rw [if_neg (by omega), bdry_succ_mid P i h]
    rcases Nat.eq_zero_or_pos i with rfl | h0
    · rw [if_pos rfl, bdry_zero P (by omega)]; ring
    · rw [if_neg (by omega), bdry_mid P i h0 hi]; ring
  · have e : i + 1 = P.n := by omega
    rw [if_pos e, e, bdry_last, bdry_mid P i (by omega) hi]
    have e1 : P.n - 1 = i := by omega
    have e2 : P.n - 2 = i - 1 := by omega
    rw [e1, e2]; ring

theorem sum_cells_upto (P : Part1) (hn : 1 ≤ P.n) (m : Nat) (hm : m ≤ P.n) :
    sumTo P.cellSize m = P.bdry m - P.lo := by
  induction m with
  | zero => simp [sumTo, bdry_zero P (by omega)]
  | succ m ih =>
    rw [sumTo, ih (by omega), cell_size_eq_bdry_diff P hn m (by omega)]; ring

theorem cell_sizes_sum_all (P : Part1) (hn : 1 ≤ P.n) :
    sumTo P.cellSize P.n = P.hi - P.lo := by
  rw [sum_cells_upto P hn P.n (le_refl _), bdry_last]

theorem cell_sizes_old_sum_fails_len1 :
    ∃ P : Part1, Valid P ∧ P.n = 1 ∧ sumTo P.cellSizeOld P.n ≠ P.hi - P.lo := by
  refine ⟨⟨1, fun _ => 1 / 2, 0, 1⟩, ⟨by decide, ?_, by norm_num, by norm_num⟩, rfl, ?_⟩
  · intro i hi; simp at hi
  · simp [sumTo, Part1.cellSizeOld]

theorem searchFrom_spec (f : Nat → Rat) (v : Rat) (fuel k : Nat) :
    k ≤ searchFrom f v fuel k ∧ searchFrom f v fuel k ≤ k + fuel ∧
    (∀ j, k ≤ j → j < searchFrom f v fuel k → f j < v) ∧
    (searchFrom f v fuel k < k + fuel → v ≤ f (searchFrom f v fuel k)) := by
  induction fuel generalizing k with
  | zero => simp [searchFrom]; intro j h1 h2; omega
  | succ fuel ih =>
    unfold searchFrom
    split_ifs with h
    · refine ⟨le_refl _, by omega, ?_, fun _ => h⟩
      intro j h1 h2; omega
    · obtain ⟨a, b, c, d⟩ := ih (k + 1)
      refine ⟨by omega, by omega, ?_, ?_⟩
      · intro j h1 h2
        rcases Nat.eq_or_lt_of_le h1 with rfl | h3
        · exact lt_of_not_ge h
        · exact c j h3 h2
      · intro h2; exact d (by omega)

theorem searchLeft_spec (f : Nat → Rat) (m : Nat) (v : Rat) :
    searchLeft f m v ≤ m ∧ (∀ j, j < searchLeft f m v → f j < v) ∧
    (searchLeft f m v < m → v ≤ f (searchLeft f m v)) := by
  unfold searchLeft
  obtain ⟨_, b, c, d⟩ := searchFrom_spec f v m 0
  refine ⟨by simpa using b, fun j hj => c j (Nat.zero_le _) hj, fun h => d (by simpa using h)⟩

theorem index_spec (P : Part1) (hv : Valid P)
    (hmono : ∀ k, k < P.n → P.bdry k < P.bdry (k + 1)) (v : Rat)
    (h1 : P.lo ≤ v) (h2 : v ≤ P.hi) :
    ∃ k : Nat, P.index v = some (k : Int) ∧ k < P.n ∧ P.bdry k ≤ v ∧
      (v < P.bdry (k + 1) ∨ (k + 1 = P.n ∧ v = P.hi)) ∧
      P.indexFloat v = some ((k : Rat) + (v - P.bdry k) / (P.bdry (k + 1) - P.bdry k)) := by
  obtain ⟨hr1, hr2, hr3⟩ := searchLeft_spec P.bdry (P.n + 1) v
  have hdom : ¬ (v < P.lo ∨ P.hi < v) := by
    rintro (h | h) <;> linarith
  have hpos := hv.pos
  -- the insertion point is at most n because bdry n = hi ≥ v
  have hrn : searchLeft P.bdry (P.n + 1) v ≤ P.n := by
    by_contra hc
    have := hr2 P.n (by omega)
    rw [bdry_last] at this
    linarith
  have hle : v ≤ P.bdry (searchLeft P.bdry (P.n + 1) v) := hr3 (by omega)
  unfold Part1.index Part1.indexFloat
  rw [if_neg hdom, if_neg hdom]
  simp only []
  generalize searchLeft P.bdry (P.n + 1) v = r at *
  by_cases heq : P.bdry r = v
  · by_cases hrl : r = P.n
    · -- v = hi: last cell, closed on the right
      subst hrl
      have e : P.n - 1 + 1 = P.n := by omega
      have hprev := hmono (P.n - 1) (by omega)
      rw [e, heq] at hprev
      have hc : ((P.n - 1 : Nat) : Rat) = (P.n : Rat) - 1 := by
        rw [Nat.cast_sub hpos]; simp
      refine ⟨P.n - 1, ?_, by omega, le_of_lt hprev, Or.inr ⟨e, ?_⟩, ?_⟩
      · rw [if_neg (by simp)]; congr 1; omega
      · rw [← heq, bdry_last]
      · rw [if_pos heq, e, heq, hc]
        have hD : v - P.bdry (P.n - 1) ≠ 0 := by linarith
        rw [div_self hD]; simp
    · refine ⟨r, ?_, by omega, le_of_eq heq, Or.inl ?_, ?_⟩
      · rw [if_pos ⟨heq, hrl⟩]
      · rw [← heq]; exact hmono r (by omega)
      · rw [if_pos heq, heq]; simp
  · have hr0 : 0 < r := by
      rcases Nat.eq_zero_or_pos r with rfl | h
      · exfalso; apply heq
        rw [bdry_zero P hpos] at hle ⊢
        linarith
      · exact h
    have hlt : v < P.bdry r := lt_of_le_of_ne hle (Ne.symm heq)
    have hprev := hr2 (r - 1) (by omega)
    have e : r - 1 + 1 = r := by omega
    have hc : ((r - 1 : Nat) : Rat) = (r : Rat) - 1 := by
      rw [Nat.cast_sub hr0]; simp
    refine ⟨r - 1, ?_, by omega, le_of_lt hprev, Or.inl (by rw [e]; exact hlt), ?_⟩
    · rw [if_neg (fun h => heq h.1)]; congr 1; omega
    · rw [if_neg heq, e, hc]
      have hD : P.bdry r - P.bdry (r - 1) ≠ 0 := by linarith
      congr 1
      field_simp
      ring

theorem sub_bdry (P : Part1) (s e : Nat) (hse : s < e) (hen : e ≤ P.n) (k : Nat) (hk : k ≤ e - s) :
    (subPart P s e 1).bdry k = P.bdry (s + k) := by
  have hn : (subPart P s e 1).n = e - s := by simp [subPart]; omega
  rcases Nat.eq_zero_or_pos k with rfl | h0
  · rw [bdry_zero _ (by omega)]; rfl
  · rcases Nat.lt_or_ge k (e - s) with h | h
    · rw [bdry_mid _ k h0 (by omega), bdry_mid P (s + k) (by omega) (by omega)]
      simp only [subPart, Nat.mul_one]
      have : s + k - 1 = s + (k - 1) := by omega
      rw [this]
    · rw [bdry_ge _ k (by omega)]
      have : s + k = e := by omega
      rw [this]; rfl

/-! uniform -/

theorem halfCount_cases (bl br : Bool) :
    halfCount bl br = (if bl then (1:Rat)/2 else 0) + (if br then (1:Rat)/2 else 0) := by
  cases bl <;> cases br <;> simp [halfCount] <;> norm_num

theorem uniform_nodes (lo hi : Rat) (n : Nat) (hn : 2 ≤ n) (bl br : Bool) (i : Nat) :
    (uniformAxis lo hi n bl br).c i =
      lo + ((i : Rat) + (if bl then 0 else 1 / 2)) * ((hi - lo) / ((n : Rat) - halfCount bl br)) := by
  have h2 : (2 : Rat) ≤ n := by exact_mod_cast hn
  have hn0 : (n : Rat) ≠ 0 := by linarith
  have hn1 : (n : Rat) - 1 ≠ 0 := by linarith
  have hn2 : 2 * (n : Rat) - 1 ≠ 0 := by linarith
  have hn3 : (n : Rat) - 1 / 2 ≠ 0 := by linarith
  simp only [uniformAxis, gminOf, gmaxOf]
  rw [if_neg (by omega)]
  cases bl <;> cases br <;> simp [halfCount] <;> field_simp <;> first | ring1 | (left; ring1)


/-- Grid stride of the uniform axis (what `cell_sides` returns for n ≥ 2). -/
theorem uniform_stride (lo hi : Rat) (n : Nat) (hn : 2 ≤ n) (bl br : Bool) :
    ((uniformAxis lo hi n bl br).c (n - 1) - (uniformAxis lo hi n bl br).c 0) / ((n : Rat) - 1) =
      (hi - lo) / ((n : Rat) - halfCount bl br) := by
  have h2 : (2 : Rat) ≤ n := by exact_mod_cast hn
  have hn1 : (n : Rat) - 1 ≠ 0 := by linarith
  rw [uniform_nodes lo hi n hn, uniform_nodes lo hi n hn]
  have : ((n - 1 : Nat) : Rat) = (n : Rat) - 1 := by rw [Nat.cast_sub (by omega)]; simp
  rw [this]
  field_simp
  ring

theorem isClose_exact_self (a : Rat) : isClose Tol.exact a a = true := by
  simp [isClose, Tol.exact, rabs]

theorem isClose_exact_iff (a b : Rat) : isClose Tol.exact a b = true ↔ a = b := by
  unfold isClose rabs Tol.exact
  simp only [decide_eq_true_eq, zero_mul, add_zero]
  constructor
  · intro h
    split_ifs at h with h1 <;> linarith
  · rintro rfl; simp


theorem halfCount_lt (bl br : Bool) (n : Nat) (hn : 2 ≤ n) : 0 < (n : Rat) - halfCount bl br := by
  have h2 : (2 : Rat) ≤ n := by exact_mod_cast hn
  cases bl <;> cases br <;> simp [halfCount] <;> linarith

theorem uniform_valid (lo hi : Rat) (hlh : lo < hi) (n : Nat) (hn : 1 ≤ n) (bl br : Bool) :
    Valid (uniformAxis lo hi n bl br) := by
  rcases Nat.lt_or_ge n 2 with h1 | h2
  · have : n = 1 := by omega
    subst this
    refine ⟨le_refl _, fun i hi => by simp [uniformAxis] at hi, ?_, ?_⟩ <;>
    cases bl <;> cases br <;> simp [uniformAxis, gminOf, gmaxOf] <;> norm_num <;> linarith
  · have hpos := halfCount_lt bl br n h2
    have hh : 0 < (hi - lo) / ((n : Rat) - halfCount bl br) := div_pos (by linarith) hpos
    have hn' : (uniformAxis lo hi n bl br).n = n := rfl
    refine ⟨hn, ?_, ?_, ?_⟩
    · intro i _
      rw [uniform_nodes lo hi n h2, uniform_nodes lo hi n h2]
      push_cast
      nlinarith
    · rw [uniform_nodes lo hi n h2]
      have : (0 : Rat) ≤ (if bl then 0 else 1 / 2) := by split_ifs <;> norm_num
      have hl : (uniformAxis lo hi n bl br).lo = lo := rfl
      rw [hl]
      push_cast
      nlinarith
    · rw [uniform_nodes lo hi n h2, hn']
      have hc : ((n - 1 : Nat) : Rat) = (n : Rat) - 1 := by rw [Nat.cast_sub (by omega)]; simp
      have hhi : (uniformAxis lo hi n bl br).hi = hi := rfl
      rw [hc, hhi]
      have key : hi = lo + ((n : Rat) - halfCount bl br) * ((hi - lo) / ((n : Rat) - halfCount bl br)) := by
        field_simp; ring
      have hoff : ((n : Rat) - 1 + (if bl then 0 else 1 / 2)) ≤ (n : Rat) - halfCount bl br := by
        cases bl <;> cases br <;> simp [halfCount] <;> linarith
      nlinarith


theorem uniform_diff (lo hi : Rat) (n : Nat) (hn : 2 ≤ n) (bl br : Bool) (i : Nat) :
    (uniformAxis lo hi n bl br).c (i + 1) - (uniformAxis lo hi n bl br).c i =
      (hi - lo) / ((n : Rat) - halfCount bl br) := by
  rw [uniform_nodes lo hi n hn, uniform_nodes lo hi n hn]
  push_cast
  ring

theorem isClose_self (t : Tol) (h1 : 0 ≤ t.atol) (h2 : 0 ≤ t.rtol) (a : Rat) : isClose t a a = true := by
  have hr : 0 ≤ rabs a := by unfold rabs; split_ifs <;> linarith
  unfold isClose
  simp only [sub_self, decide_eq_true_eq]
  have : rabs 0 = 0 := by simp [rabs]
  rw [this]
  positivity

/-- `cell_sides` of the uniform axis, for EVERY non-negative tolerance of `np.allclose` (in
particular NumPy's defaults, which the code and the driver use). -/
theorem uniform_cellSide (t : Tol) (ht1 : 0 ≤ t.atol) (ht2 : 0 ≤ t.rtol) (lo hi : Rat) (hlh : lo < hi)
    (n : Nat) (hn : 2 ≤ n) (bl br : Bool) :
    (uniformAxis lo hi n bl br).cellSide t = some ((hi - lo) / ((n : Rat) - halfCount bl br)) := by
  have hpos := halfCount_lt bl br n hn
  have hh : 0 < (hi - lo) / ((n : Rat) - halfCount bl br) := div_pos (by linarith) hpos
  have hn' : (uniformAxis lo hi n bl br).n = n := rfl
  have hu : (uniformAxis lo hi n bl br).isUniform t = true := by
    unfold Part1.isUniform
    rw [List.all_eq_true]
    intro i _
    have := uniform_diff lo hi n hn bl br 0
    rw [uniform_diff lo hi n hn bl br i, this]
    exact isClose_self t ht1 ht2 _
  unfold Part1.cellSide
  rw [hu]
  simp only [Bool.not_true, Bool.false_eq_true, if_false]
  rw [hn', if_pos (show 1 < n by omega), uniform_stride lo hi n hn, if_neg (ne_of_gt hh)]

theorem onBdry_zero (rtol s : Rat) : onBdry rtol 0 s = true := by simp [onBdry]

theorem onBdry_half (rtol h : Rat) (hr : rtol < 1 / 2) (hh : 0 < h) : onBdry rtol (h / 2) h = false := by
  unfold onBdry
  have h1 : ¬ (h / 2 = 0) := by intro h0; linarith
  have h2 : ¬ (h / 2 ≤ rtol * h) := by intro hle; nlinarith
  simp [h1, h2]

/-- Detected flags of the uniform axis = requested flags, for every relative tolerance
`0 ≤ rtol < 1/2` of the boundary test (the code uses `1e-5`). -/
theorem uniform_nodesOnBdry (rtol : Rat) (hr : rtol < 1 / 2) (lo hi : Rat) (hlh : lo < hi) (n : Nat)
    (hn : 2 ≤ n) (bl br : Bool) :
    (uniformAxis lo hi n bl br).nodesOnBdry rtol = (bl, br) := by
  have hpos := halfCount_lt bl br n hn
  have hh : 0 < (hi - lo) / ((n : Rat) - halfCount bl br) := div_pos (by linarith) hpos
  have hn' : (uniformAxis lo hi n bl br).n = n := rfl
  have hc : ((n - 1 : Nat) : Rat) = (n : Rat) - 1 := by rw [Nat.cast_sub (by omega)]; simp
  have key : hi = lo + ((n : Rat) - halfCount bl br) * ((hi - lo) / ((n : Rat) - halfCount bl br)) := by
    field_simp; ring
  have hd0 := uniform_diff lo hi n hn bl br 0
  have hd1 := uniform_diff lo hi n hn bl br (n - 2)
  have e : n - 2 + 1 = n - 1 := by omega
  rw [e] at hd1
  simp only [Nat.zero_add] at hd0
  have hc0 := uniform_nodes lo hi n hn bl br 0
  have hcn := uniform_nodes lo hi n hn bl br (n - 1)
  rw [hc] at hcn
  have hl : (uniformAxis lo hi n bl br).lo = lo := rfl
  have hhi : (uniformAxis lo hi n bl br).hi = hi := rfl
  unfold Part1.nodesOnBdry
  simp only [hn', if_pos (show 1 < n by omega), hd0, hd1, hl, hhi]
  rw [hc0, hcn]
  generalize (hi - lo) / ((n : Rat) - halfCount bl br) = h at *
  have hL : lo + ((0 : Nat) + if bl = true then 0 else 1 / 2) * h - lo = if bl then 0 else h / 2 := by
    cases bl <;> simp <;> ring
  have hR : hi - (lo + ((n : Rat) - 1 + if bl = true then 0 else 1 / 2) * h) = if br then 0 else h / 2 := by
    cases bl <;> cases br <;> simp [halfCount] at key ⊢ <;> linarith
  rw [hL, hR]
  cases bl <;> cases br <;> simp [onBdry_zero, onBdry_half rtol h hr hh]

theorem roundHalfEven_int (n : Int) : roundHalfEven (n : Rat) = n := by
  unfold roundHalfEven
  simp [Rat.floor_intCast]

theorem rabs_zero : rabs 0 = 0 := by simp [rabs]

/-- All ways of giving three (or four) consistent parameters complete to the same axis. -/
theorem completeAxis_agree (t : Tol) (eps : Rat) (ht1 : 0 ≤ t.atol) (ht2 : 0 ≤ t.rtol) (he : 0 ≤ eps)
    (lo hi d : Rat) (n : Int) (bl br : Bool) (hd : d ≠ 0)
    (hcons : ((n : Rat) - halfCount bl br) * d = hi - lo) :
    completeAxis t eps (some lo) (some hi) (some n) none bl br = some (lo, hi, n) ∧
    completeAxis t eps (some lo) none (some n) (some d) bl br = some (lo, hi, n) ∧
    completeAxis t eps none (some hi) (some n) (some d) bl br = some (lo, hi, n) ∧
    completeAxis t eps (some lo) (some hi) none (some d) bl br = some (lo, hi, n) ∧
    completeAxis t eps (some lo) (some hi) (some n) (some d) bl br = some (lo, hi, n) := by
  have rabs_nonneg : ∀ x : Rat, 0 ≤ rabs x := by
    intro x; unfold rabs; split_ifs <;> linarith
  refine ⟨rfl, ?_, ?_, ?_, ?_⟩
  · simp only [completeAxis]
    rw [hcons]; simp
  · simp only [completeAxis]
    rw [hcons]; simp
  · simp only [completeAxis]
    rw [if_neg hd]
    have hn : (hi - lo) / d + halfCount bl br = (n : Rat) := by
      rw [← hcons]; field_simp; ring1
    simp only [hn, roundHalfEven_int, sub_self, rabs_zero]
    rw [if_neg (by linarith)]
  · simp only [completeAxis]
    have : lo + ((n : Rat) - halfCount bl br) * d = hi := by rw [hcons]; ring1
    rw [this]
    have : isClose t hi hi = true := by
      unfold isClose
      simp only [sub_self, rabs_zero, decide_eq_true_eq]
      have := rabs_nonneg hi
      positivity
    rw [this]; rfl

theorem insertAt_block (P : Part) (i : Nat) (hi : i ≤ P.length) (parts : List Part) :
    insertAt P i parts = P.take i ++ parts.flatten ++ P.drop i := by
  induction parts generalizing P i with
  | nil => simp [insertAt]
  | cons Q rest ih =>
    simp only [insertAt]
    rw [ih _ _ (by simp; omega)]
    have h1 : (List.take i P ++ Q ++ List.drop i P).take (i + Q.length) = List.take i P ++ Q := by
      rw [List.take_append_of_le_length (by simp; omega)]
      rw [List.take_of_length_le (by simp)]
    have h2 : (List.take i P ++ Q ++ List.drop i P).drop (i + Q.length) = List.drop i P := by
      rw [List.drop_append_of_le_length (by simp; omega)]
      rw [List.drop_of_length_le (by simp)]
      simp
    rw [h1, h2]
    simp [List.flatten_cons, List.append_assoc]


theorem getInt_nat (P : Part1) (hv : Valid P) (k : Nat) (hk : k < P.n) :
    P.getInt (k : Int) = some (subPart P k (k + 1) 1) := by
  unfold Part1.getInt
  simp only []
  rw [if_neg (by omega), if_neg (by omega)]
  have : ((k : Int) + 1) = ((k + 1 : Nat) : Int) := by push_cast; ring
  rw [this]
  exact getSlice_core P hv k (k + 1) 1 (by omega) (by omega) (le_refl _) none rfl

theorem getInt_neg (P : Part1) (k : Nat) (hk : k < P.n) :
    P.getInt ((k : Int) - P.n) = P.getInt (k : Int) := by
  have h1 : ((k : Int) - P.n < 0) := by omega
  have h2 : ¬ ((k : Int) < 0) := by omega
  have h3 : (k : Int) - P.n + P.n = k := by omega
  unfold Part1.getInt
  simp only [h1, h2, h3, if_true, if_false]

/-- integers outside `-n ≤ k < n` are rejected -/
theorem getInt_out_of_range (P : Part1) (k : Int) (hk : k < -(P.n : Int) ∨ (P.n : Int) ≤ k) :
    P.getInt k = none := by
  unfold Part1.getInt
  simp only []
  split_ifs with h1 h2 <;> first | rfl | omega

theorem filter_range_getD {α} (l : List α) (d : α) (q : α → Bool) :
    ((List.range l.length).filter (fun i => q (l.getD i d))).filterMap (fun i => l[i]?) = l.filter q := by
  induction l using List.reverseRecOn with
  | nil => simp
  | append_singleton l a ih =>
    rw [List.length_append, List.length_singleton, List.range_succ, List.filter_append,
      List.filterMap_append, List.filter_append]
    have h1 : (List.range l.length).filter (fun i => q ((l ++ [a]).getD i d)) =
        (List.range l.length).filter (fun i => q (l.getD i d)) := by
      apply List.filter_congr
      intro i hi
      rw [List.mem_range] at hi
      simp [List.getD, List.getElem?_append_left hi]
    rw [h1]
    have h2 : ((List.range l.length).filter (fun i => q (l.getD i d))).filterMap (fun i => (l ++ [a])[i]?) =
        ((List.range l.length).filter (fun i => q (l.getD i d))).filterMap (fun i => l[i]?) := by
      apply List.filterMap_congr
      intro i hi
      rw [List.mem_filter, List.mem_range] at hi
      simp [List.getElem?_append_left hi.1]
    rw [h2, ih]
    congr 1
    by_cases hq : q a <;> simp [List.getD, hq]

theorem squeeze_all (P : Part) :
    squeeze P none = some (P.filter fun p => decide (1 < p.n)) := by
  unfold squeeze
  simp only [Option.bind_eq_bind, Option.bind_some]
  have : (List.range P.length).filter (fun i => !(List.range P.length).contains i ||
      decide (1 < (P.getD i ⟨0, fun _ => 0, 0, 0⟩).n)) =
      (List.range P.length).filter (fun i => (fun p : Part1 => decide (1 < p.n)) (P.getD i ⟨0, fun _ => 0, 0, 0⟩)) := by
    apply List.filter_congr
    intro i hi
    simp [List.mem_range.mp hi]
  rw [this]
  exact congrArg some (filter_range_getD P _ (fun p => decide (1 < p.n)))


theorem getSlice_full (P : Part1) (hv : Valid P) : P.getSlice none none none = some P := by
  have hpos := hv.pos
  unfold Part1.getSlice
  have c1 : (((none : Option Int).isSome && ((none : Option Int) == none)) ||
      ((none : Option Int) == some (P.n : Int))) = false := by simp
  rw [c1]
  simp only [Bool.false_eq_true, if_false, Option.getD_none]
  rw [if_neg (by omega)]
  have hs : sliceIndices none none 1 P.n = ((0 : Int), (P.n : Int)) := by
    simp [sliceIndices]
  rw [hs]
  simp only []
  rw [if_neg (by omega)]
  have hm : sliceLen (0 : Int) (P.n : Int) 1 = P.n := by
    unfold sliceLen
    rw [if_pos (by omega), if_pos (by omega)]
    omega
  have hf : (fun (i : Nat) => P.c ((0 : Int) + (i : Int) * 1).toNat) = P.c := by
    funext i
    have : ((0 : Int) + (i : Int) * 1).toNat = i := by omega
    rw [this]
  rw [hm, hf, Int.toNat_natCast]
  have : (0 : Int).toNat = 0 := rfl
  rw [this, bdry_zero P hpos, bdry_last]
  exact mk?_of_valid P hv

/-- The one-point partition of a one-point set. -/
theorem index_degenerate (P : Part1) (hv : Valid P) (hn : P.n = 1) (hd : P.lo = P.hi) :
    P.index P.lo = some 0 ∧ P.indexFloat P.lo = some 0 := by
  have hs : searchLeft P.bdry (P.n + 1) P.lo = 0 := by
    unfold searchLeft
    rw [hn]
    simp [searchFrom, bdry_zero P hv.pos]
  have hdom : ¬ (P.lo < P.lo ∨ P.hi < P.lo) := by
    rintro (h | h)
    · exact lt_irrefl _ h
    · rw [hd] at h; exact lt_irrefl _ h
  have hb := bdry_zero P hv.pos
  unfold Part1.index Part1.indexFloat
  rw [if_neg hdom, if_neg hdom]
  simp only [hs]
  rw [if_pos ⟨hb, by omega⟩, if_pos hb]
  simp

theorem nonuniform_default (rtol : Rat) (hr : rtol < 1 / 2) (n : Nat) (c : Nat → Rat) (hn : 2 ≤ n)
    (hm : ∀ i, i + 1 < n → c i < c (i + 1)) (bl br : Bool) :
    ∃ P, nonuniformAxis n c none none bl br = some P ∧ Valid P ∧ P.n = n ∧ P.c = c ∧
      P.bdryFrac = (if bl then 1 / 2 else 1, if br then 1 / 2 else 1) ∧
      P.nodesOnBdry rtol = (bl, br) := by
  have h1 := hm 0 (by omega)
  have h2 := hm (n - 2) (by omega)
  have e : n - 2 + 1 = n - 1 := by omega
  rw [e] at h2
  simp only [Nat.zero_add] at h1
  have d1 : c 1 - c 0 ≠ 0 := by linarith
  have d2 : c (n - 1) - c (n - 2) ≠ 0 := by linarith
  have hne : ¬ n = 1 := by omega
  let P : Part1 := ⟨n, c, if bl then c 0 else c 0 - (c 1 - c 0) / 2,
    if br then c (n - 1) else c (n - 1) + (c (n - 1) - c (n - 2)) / 2⟩
  have hv : Valid P := by
    refine ⟨by show 1 ≤ n; omega, hm, ?_, ?_⟩
    · show (if bl then c 0 else c 0 - (c 1 - c 0) / 2) ≤ c 0
      split_ifs <;> linarith
    · show c (n - 1) ≤ (if br then c (n - 1) else c (n - 1) + (c (n - 1) - c (n - 2)) / 2)
      split_ifs <;> linarith
  refine ⟨P, ?_, hv, rfl, rfl, ?_, ?_⟩
  · unfold nonuniformAxis
    simp only [Option.isSome_none, Bool.false_and, Bool.or_self, Bool.false_eq_true, if_false,
      Bool.or_eq_true, decide_eq_true_eq, hne, or_false]
    exact mk?_of_valid P hv
  · unfold Part1.bdryFrac
    rw [if_neg hne]
    show (1 / 2 + (c 0 - (if bl then c 0 else c 0 - (c 1 - c 0) / 2)) / (c 1 - c 0),
      1 / 2 + ((if br then c (n - 1) else c (n - 1) + (c (n - 1) - c (n - 2)) / 2) - c (n - 1)) /
        (c (n - 1) - c (n - 2))) = _
    cases bl <;> cases br <;> simp <;> (try constructor) <;> field_simp <;> norm_num
  · unfold Part1.nodesOnBdry
    show (onBdry rtol (c 0 - (if bl then c 0 else c 0 - (c 1 - c 0) / 2)) (if 1 < n then c 1 - c 0 else _),
      onBdry rtol ((if br then c (n - 1) else c (n - 1) + (c (n - 1) - c (n - 2)) / 2) - c (n - 1))
        (if 1 < n then c (n - 1) - c (n - 2) else _)) = _
    rw [if_pos (show 1 < n by omega), if_pos (show 1 < n by omega)]
    have hL : c 0 - (if bl then c 0 else c 0 - (c 1 - c 0) / 2) = if bl then 0 else (c 1 - c 0) / 2 := by
      cases bl <;> simp
    have hR : (if br then c (n - 1) else c (n - 1) + (c (n - 1) - c (n - 2)) / 2) - c (n - 1) =
        if br then 0 else (c (n - 1) - c (n - 2)) / 2 := by
      cases br <;> simp
    rw [hL, hR]
    cases bl <;> cases br <;>
      simp [onBdry_zero, onBdry_half rtol _ hr (show 0 < c 1 - c 0 by linarith),
        onBdry_half rtol _ hr (show 0 < c (n - 1) - c (n - 2) by linarith)]


theorem fromGrid_default (n : Nat) (c : Nat → Rat) (hn : 2 ≤ n) :
    fromGridAxis n c none none = nonuniformAxis n c none none false false := by
  have hne : ¬ n = 1 := by omega
  simp [fromGridAxis, nonuniformAxis, hne]

theorem fromGrid_explicit (n : Nat) (c : Nat → Rat) (a b : Rat) :
    fromGridAxis n c (some a) (some b) = Part1.mk? ⟨n, c, a, b⟩ := by
  simp [fromGridAxis]

theorem wrapIndex_nat (n k : Nat) (hk : k < n) : wrapIndex n (k : Int) = some k := by
  unfold wrapIndex
  rw [if_pos ⟨by omega, by omega⟩]; simp

theorem wrapIndex_neg (n k : Nat) (hk : k < n) : wrapIndex n ((k : Int) - n) = some k := by
  unfold wrapIndex
  rw [if_neg (by omega), if_pos ⟨by omega, by omega⟩]
  congr 1; omega

theorem mapM_wrapIndex (n : Nat) (idx : List Nat) (h : ∀ k ∈ idx, k < n) :
    (idx.map (fun (k : Nat) => (k : Int))).mapM (wrapIndex n) = some idx := by
  induction idx with
  | nil => rfl
  | cons a rest ih =>
    have h1 := wrapIndex_nat n a (h a (by simp))
    have h2 := ih (fun k hk => h k (by simp [hk]))
    simp [List.mapM_cons, h1, h2]

/-- `partition[[i0, …, ik]]` for a strictly increasing list of valid cell numbers. -/
theorem getList_spec (P : Part1) (hv : Valid P) (first : Nat) (rest : List Nat)
    (hlt : ∀ k ∈ first :: rest, k < P.n) (hinc : (first :: rest).Pairwise (· < ·)) :
    ∃ Q, P.getList ((first :: rest).map (fun (k : Nat) => (k : Int))) = some Q ∧ Valid Q ∧
      Q.n = rest.length + 1 ∧ (∀ i, Q.c i = P.c ((first :: rest).getD i 0)) ∧
      Q.lo = P.bdry first ∧ Q.hi = P.bdry ((first :: rest).getLast (by simp) + 1) := by
  have hm := mapM_wrapIndex P.n (first :: rest) hlt
  have hget : ∀ i (hi : i < (first :: rest).length), (first :: rest).getD i 0 = (first :: rest)[i] := by
    intro i hi; simp [List.getD, List.getElem?_eq_getElem hi]
  have hlast : (first :: rest).getD ((first :: rest).length - 1) 0 = (first :: rest).getLast (by simp) := by
    rw [hget _ (by simp), List.getLast_eq_getElem]
  let Q : Part1 := ⟨(first :: rest).length, fun i => P.c ((first :: rest).getD i 0), P.bdry first,
    P.bdry ((first :: rest).getLast (by simp) + 1)⟩
  have hQ : Valid Q := by
    refine ⟨by simp [Q], ?_, ?_, ?_⟩
    · intro i hi
      have hi' : i + 1 < (first :: rest).length := hi
      show P.c ((first :: rest).getD i 0) < P.c ((first :: rest).getD (i + 1) 0)
      rw [hget i (by omega), hget (i + 1) hi']
      have h1 : (first :: rest)[i] < (first :: rest)[i + 1] :=
        List.pairwise_iff_getElem.mp hinc i (i + 1) (by omega) hi' (by omega)
      exact hv.c_strict h1 (hlt _ (List.getElem_mem _))
    · show P.bdry first ≤ P.c ((first :: rest).getD 0 0)
      simp only [List.getD_cons_zero]
      exact node_ge_bdry P hv first (hlt first (by simp))
    · show P.c ((first :: rest).getD ((first :: rest).length - 1) 0) ≤ _
      rw [hlast]
      exact node_le_bdry P hv _ (hlt _ (List.getLast_mem _))
  refine ⟨Q, ?_, hQ, by simp [Q], fun i => rfl, rfl, rfl⟩
  unfold Part1.getList
  rw [hm]
  simp only [Option.bind_eq_bind, Option.bind_some, List.head?_cons, List.getLast?_eq_getLast_of_ne_nil (List.cons_ne_nil _ _)]
  have : (⟨(first :: rest).toArray.size, fun i => P.c ((first :: rest).toArray.getD i 0), P.bdry first,
      P.bdry ((first :: rest).getLast (List.cons_ne_nil _ _) + 1)⟩ : Part1) = Q := by
    simp [Q]
  rw [this]
  exact mk?_of_valid Q hQ


theorem mapM_some_of_forall {α β} (g : α → Option β) (h : α → β) (l : List α)
    (H : ∀ x ∈ l, g x = some (h x)) : l.mapM g = some (l.map h) := by
  induction l with
  | nil => rfl
  | cons a rest ih =>
    have h1 := H a (by simp)
    have h2 := ih (fun x hx => H x (by simp [hx]))
    simp [List.mapM_cons, h1, h2]

/-- what `partition[tuple of 0 / slice(None)]` does to one axis -/
def pick (p : Part1) (i : Idx) : Part1 :=
  match i with
  | .int _ => subPart p 0 1 1
  | _ => p

def selIdx (sel : List Nat) (j : Nat) : Idx :=
  if sel.contains j then Idx.slice none none none else Idx.int 0

theorem getAxis_selIdx (p : Part1) (hv : Valid p) (sel : List Nat) (j : Nat) :
    getAxis p (selIdx sel j) = some (pick p (selIdx sel j)) := by
  unfold selIdx
  split_ifs
  · exact getSlice_full p hv
  · have := getInt_nat p hv 0 hv.pos
    simpa [getAxis, pick] using this

theorem normIdx_selIdx (sel : List Nat) (n : Nat) :
    normIdx ((List.range n).map (selIdx sel)) n = some ((List.range n).map (selIdx sel)) := by
  have hc : ((List.range n).map (selIdx sel)).count Idx.ellipsis = 0 := by
    rw [List.count_eq_zero]
    intro h
    rw [List.mem_map] at h
    obtain ⟨j, _, hj⟩ := h
    unfold selIdx at hj
    split_ifs at hj
  unfold normIdx
  simp [hc]


theorem byaxisSel_spec (P : Part) (hv : ∀ p ∈ P, Valid p) (sel : List Nat) :
    byaxisSel P sel = some (((List.range P.length).filter (fun j => sel.contains j)).filterMap
      (fun j => P[j]?)) := by
  have hQj : ∀ j (hj : j < P.length),
      ((List.zip P ((List.range P.length).map (selIdx sel))).map (fun x => pick x.1 x.2))[j]? =
        some (pick P[j] (selIdx sel j)) := by
    intro j hj
    simp [hj]
  have hget : getItem P ((List.range P.length).map (selIdx sel)) =
      some ((List.zip P ((List.range P.length).map (selIdx sel))).map (fun x => pick x.1 x.2)) := by
    unfold getItem
    rw [normIdx_selIdx]
    simp only [Option.bind_eq_bind, Option.bind_some]
    rw [if_neg (by simp)]
    apply mapM_some_of_forall (fun x : Part1 × Idx => getAxis x.1 x.2) (fun x => pick x.1 x.2)
    rintro ⟨p, i⟩ hx
    obtain ⟨hp, hi⟩ := List.of_mem_zip hx
    rw [List.mem_map] at hi
    obtain ⟨j, _, rfl⟩ := hi
    exact getAxis_selIdx p (hv p hp) sel j
  generalize hQ : (List.zip P ((List.range P.length).map (selIdx sel))).map (fun x => pick x.1 x.2) = Q
    at hQj hget
  have hQlen : Q.length = P.length := by rw [← hQ]; simp
  have hunsel : ∀ k ∈ (List.range P.length).filter (fun i => !sel.contains i), k < P.length := by
    intro k hk
    rw [List.mem_filter, List.mem_range] at hk
    exact hk.1
  have hbs : byaxisSel P sel = squeeze Q (some (((List.range P.length).filter
      (fun i => !sel.contains i)).map fun (i : Nat) => (i : Int))) := by
    show (getItem P ((List.range P.length).map (selIdx sel))).bind _ = _
    rw [hget]; rfl
  rw [hbs]
  unfold squeeze
  simp only [hQlen, Option.bind_eq_bind, mapM_wrapIndex P.length _ hunsel, Option.bind_some]
  congr 1
  have hC : (List.range P.length).filter (fun i =>
      !((List.range P.length).filter (fun i => !sel.contains i)).contains i ||
        decide (1 < (Q.getD i ⟨0, fun _ => 0, 0, 0⟩).n)) =
      (List.range P.length).filter (fun j => sel.contains j) := by
    apply List.filter_congr
    intro j hj
    rw [List.mem_range] at hj
    have hq := hQj j hj
    by_cases hs : sel.contains j = true
    · have : ((List.range P.length).filter (fun i => !sel.contains i)).contains j = false := by
        simp [hs] at *; intro _; exact hs
      have hm : j ∈ sel := by simpa using hs
      simp [hm]
    · have hs' : sel.contains j = false := by simpa using hs
      have h1 : ((List.range P.length).filter (fun i => !sel.contains i)).contains j = true := by
        simp [hj]; simpa using hs'
      have hm : j ∉ sel := by simpa using hs'
      have h2 : (Q[j]?.getD ⟨0, fun _ => 0, 0, 0⟩).n = 1 := by
        simp [hq, selIdx, hm, pick, subPart]
      simp [h2, hm, hj]
  rw [hC]
  apply List.filterMap_congr
  intro j hj
  rw [List.mem_filter, List.mem_range] at hj
  rw [hQj j hj.1, List.getElem?_eq_getElem hj.1]
  have hm : j ∈ sel := by simpa using hj.2
  simp [selIdx, hm, pick]


theorem filter_range_singleton (n k : Nat) (hk : k < n) :
    (List.range n).filter (fun j => [k].contains j) = [k] := by
  induction n with
  | zero => omega
  | succ n ih =>
    rw [List.range_succ, List.filter_append]
    rcases Nat.lt_or_ge k n with h | h
    · rw [ih h]
      have : n ≠ k := by omega
      simp [this]
    · have e : k = n := by omega
      subst e
      have : (List.range k).filter (fun j => [k].contains j) = [] := by
        rw [List.filter_eq_nil_iff]
        intro j hj
        rw [List.mem_range] at hj
        have : j ≠ k := by omega
        simp [this]
      rw [this]; simp

theorem byaxisInt_spec (P : Part) (hv : ∀ p ∈ P, Valid p) (k : Nat) (hk : k < P.length) :
    byaxisInt P (k : Int) = some [P[k]] ∧ byaxisInt P ((k : Int) - P.length) = some [P[k]] := by
  have h : byaxisSel P [k] = some [P[k]] := by
    rw [byaxisSel_spec P hv, filter_range_singleton P.length k hk]
    simp [hk]
  unfold byaxisInt
  rw [wrapIndex_nat _ _ hk, wrapIndex_neg _ _ hk]
  exact ⟨h, h⟩

theorem flatten_toList (P : Part) (l : List Nat) :
    (l.map fun k => (P[k]?).toList).flatten = l.filterMap fun k => P[k]? := by
  induction l with
  | nil => rfl
  | cons a rest ih =>
    rw [List.map_cons, List.flatten_cons, ih, List.filterMap_cons]
    cases h : P[a]? <;> simp

theorem byaxisList_spec (P : Part) (hv : ∀ p ∈ P, Valid p) (l : List Nat) (hl : ∀ k ∈ l, k < P.length) :
    byaxisList P (l.map fun (k : Nat) => (k : Int)) = some (l.filterMap fun k => P[k]?) := by
  have hm : (l.map fun (k : Nat) => (k : Int)).mapM (byaxisInt P) =
      some (l.map fun k => (P[k]?).toList) := by
    rw [List.mapM_map]
    apply mapM_some_of_forall
    intro k hk
    have := (byaxisInt_spec P hv k (hl k hk)).1
    simp [this, List.getElem?_eq_getElem (hl k hk)]
  unfold byaxisList
  rw [hm]
  simp only [Option.bind_eq_bind, Option.bind_some]
  rw [← flatten_toList]
  cases l with
  | nil => rfl
  | cons a rest =>
    simp only [List.map_cons]
    unfold append insert
    simp only []
    rw [if_neg (by omega), if_neg (by omega), Int.toNat_natCast, insertAt_block _ _ (le_refl _)]
    simp


theorem normIdx_explicit (idx : List Idx) (ndim : Nat) (hlen : idx.length = ndim)
    (hne : Idx.ellipsis ∉ idx) : normIdx idx ndim = some idx := by
  have hc : idx.count Idx.ellipsis = 0 := List.count_eq_zero.mpr hne
  unfold normIdx
  simp [hc, hlen]

theorem getItem_axiswise (P : Part) (idx : List Idx) (hlen : idx.length = P.length)
    (hne : Idx.ellipsis ∉ idx) :
    getItem P idx = (List.zip P idx).mapM (fun x => getAxis x.1 x.2) := by
  unfold getItem
  rw [normIdx_explicit idx P.length hlen hne]
  simp [hlen]

/-- fewer indices than axes, no ellipsis: filled with `slice(None)` from the right -/
theorem normIdx_short (idx : List Idx) (ndim : Nat) (hlen : idx.length < ndim)
    (hne : Idx.ellipsis ∉ idx) :
    normIdx idx ndim = some (idx ++ List.replicate (ndim - idx.length) (Idx.slice none none none)) := by
  have hc : idx.count Idx.ellipsis = 0 := List.count_eq_zero.mpr hne
  have hcont : idx.contains Idx.ellipsis = false := by simpa using hne
  have hidx : (idx ++ [Idx.ellipsis]).idxOf Idx.ellipsis = idx.length := by
    rw [List.idxOf_append_of_notMem hne]; simp
  unfold normIdx
  simp only [hlen, hcont, Bool.false_eq_true, not_false_eq_true, and_self, if_true]
  have hc2 : (idx ++ [Idx.ellipsis]).count Idx.ellipsis = 1 := by simp [hc]
  simp only [hc2, Nat.lt_irrefl, if_false, if_true, hidx]
  have h1 : (idx ++ [Idx.ellipsis]).take idx.length = idx := by simp
  have h2 : (idx ++ [Idx.ellipsis]).drop (idx.length + 1) = [] := by simp
  rw [h1, h2]
  simp only [List.length_append, List.length_singleton, List.append_nil, List.length_replicate]
  have : ndim + 1 - (idx.length + 1) = ndim - idx.length := by omega
  rw [this, if_neg (by omega)]

/-- one ellipsis between `pre` and `post` expands to the missing number of `slice(None)` -/
theorem normIdx_ellipsis (pre post : List Idx) (ndim : Nat) (hlen : pre.length + post.length ≤ ndim)
    (h1 : Idx.ellipsis ∉ pre) (h2 : Idx.ellipsis ∉ post) :
    normIdx (pre ++ Idx.ellipsis :: post) ndim =
      some (pre ++ List.replicate (ndim - pre.length - post.length) (Idx.slice none none none) ++ post) := by
  have hc1 : pre.count Idx.ellipsis = 0 := List.count_eq_zero.mpr h1
  have hc2 : post.count Idx.ellipsis = 0 := List.count_eq_zero.mpr h2
  have hcont : (pre ++ Idx.ellipsis :: post).contains Idx.ellipsis = true := by simp
  have hidx : (pre ++ Idx.ellipsis :: post).idxOf Idx.ellipsis = pre.length := by
    rw [List.idxOf_append_of_notMem h1]; simp
  unfold normIdx
  simp only [hcont, not_true_eq_false, and_false, if_false]
  have hc : (pre ++ Idx.ellipsis :: post).count Idx.ellipsis = 1 := by simp [hc1, hc2]
  simp only [hc, Nat.lt_irrefl, if_false, if_true, hidx]
  have e1 : (pre ++ Idx.ellipsis :: post).take pre.length = pre := by simp
  have e2 : (pre ++ Idx.ellipsis :: post).drop (pre.length + 1) = post := by simp
  rw [e1, e2]
  simp only [List.length_append, List.length_cons, List.length_replicate]
  have : ndim + 1 - (pre.length + (post.length + 1)) = ndim - pre.length - post.length := by omega
  rw [this, if_neg (by omega)]



/-- Python's clamping of one slice bound for a positive step: `None` ↦ default, `k ≥ 0 ↦ min k n`,
`k < 0 ↦ max (k + n) 0`. -/
def clampBound (n : Nat) (dflt : Int) : Option Int → Int
  | none => dflt
  | some k => if k < 0 then max (k + n) 0 else min k n

theorem sliceIndices_pos_spec (start stop : Option Int) (st : Int) (hst : 0 < st) (n : Nat) :
    sliceIndices start stop st n = (clampBound n 0 start, clampBound n n stop) := by
  have h1 : ¬ st < 0 := by omega
  unfold sliceIndices clampBound
  cases start <;> cases stop <;> simp [h1]

theorem clampBound_range (n : Nat) (d : Int) (hd : 0 ≤ d ∧ d ≤ n) (b : Option Int) :
    0 ≤ clampBound n d b ∧ clampBound n d b ≤ n := by
  unfold clampBound
  cases b with
  | none => exact hd
  | some k => simp only []; split_ifs <;> omega

/-- `partition[start:stop:step]` for ARBITRARY bounds (`None`, negative, beyond the ends) and any
step `≥ 1` or `None`: with `(s, e)` the clamped bounds, the slice is rejected iff `s ≥ e` or
`start == n`, and otherwise it is `subPart P s e st`. -/
theorem getSlice_general (P : Part1) (hv : Valid P) (start stop : Option Int) (step : Option Int)
    (st : Nat) (hst : 1 ≤ st) (hstep : step.getD 1 = (st : Int)) :
    let s := clampBound P.n 0 start
    let e := clampBound P.n P.n stop
    P.getSlice start stop step =
      if s < e then some (subPart P s.toNat e.toNat st) else none := by
  intro s e
  have hs := clampBound_range P.n 0 ⟨le_refl _, by omega⟩ start
  have he := clampBound_range P.n P.n ⟨by omega, le_refl _⟩ stop
  have hstp : (0 : Int) < st := by omega
  by_cases hse : s < e
  · rw [if_pos hse]
    -- reduce to the case of natural bounds
    have key := getSlice_core P hv s.toNat e.toNat st (by omega) (by omega) hst step hstep
    have e1 : ((s.toNat : Nat) : Int) = s := by omega
    have e2 : ((e.toNat : Nat) : Int) = e := by omega
    rw [e1, e2] at key
    rw [← key]
    -- both sides run the same code once the clamped bounds agree and no early rejection fires
    unfold Part1.getSlice
    have hS : sliceIndices start stop 1 P.n = (s, e) := sliceIndices_pos_spec start stop 1 (by omega) P.n
    have hS' : sliceIndices start stop (st : Int) P.n = (s, e) := sliceIndices_pos_spec start stop _ hstp P.n
    have hT : sliceIndices (some s) (some e) 1 P.n = (s, e) := by
      rw [sliceIndices_pos_spec _ _ 1 (by omega)]; simp [clampBound]; omega
    have hT' : sliceIndices (some s) (some e) (st : Int) P.n = (s, e) := by
      rw [sliceIndices_pos_spec _ _ _ hstp]; simp [clampBound]; omega
    have c1 : ((start.isSome && start == stop) || start == some (P.n : Int)) = false := by
      rw [Bool.or_eq_false_iff]
      constructor
      · cases start with
        | none => simp
        | some a =>
          cases stop with
          | none => simp
          | some b =>
            simp only [Option.isSome_some, Bool.true_and]
            by_cases hab : a = b
            · exfalso; subst hab
              simp only [s, e, clampBound] at hse
              split_ifs at hse <;> omega
            · simp [hab]
      · cases start with
        | none => simp
        | some a =>
          by_cases han : a = (P.n : Int)
          · exfalso; subst han
            have hsn : s = (P.n : Int) := by
              simp only [s, clampBound]
              rw [if_neg (by omega)]; omega
            omega
          · simp [han]
    have c2 : (((some s).isSome && (some s == some e)) || (some s == some (P.n : Int))) = false := by
      have : s ≠ e := by omega
      have : s ≠ (P.n : Int) := by omega
      simp [*]
    rw [c1, c2]
    simp only [Bool.false_eq_true, if_false, hstep, hS, hS', hT, hT']
  · rw [if_neg hse]
    unfold Part1.getSlice
    split_ifs with h1
    · rfl
    · simp only [hstep]
      rw [if_neg (by omega), sliceIndices_pos_spec start stop 1 (by omega) P.n]
      simp only []
      rw [if_pos (by omega)]


theorem wrapIndex_spec (n : Nat) (k : Int) (j : Nat) :
    wrapIndex n k = some j ↔ (0 ≤ k ∧ k < n ∧ (j : Int) = k) ∨ (-(n : Int) ≤ k ∧ k < 0 ∧ (j : Int) = k + n) := by
  unfold wrapIndex
  split_ifs with h1 h2
  · simp only [Option.some.injEq]; constructor
    · intro h; left; omega
    · rintro (h | h) <;> omega
  · simp only [Option.some.injEq]; constructor
    · intro h; right; omega
    · rintro (h | h) <;> omega
  · simp only [reduceCtorEq, false_iff]; rintro (h | h) <;> omega

/-- second normalisation applied to an already normalised list is the identity -/
theorem gridFlags_ofNormalized (fl : List (Bool × Bool)) (ndim : Nat) (h : fl.length = ndim) :
    (Flags.ofNormalized fl).gridFlags ndim = some fl := by
  unfold Flags.ofNormalized Flags.gridFlags
  simp only [List.length_map]
  by_cases h2 : ndim = 1 ∧ fl.length = 2
  · omega
  · rw [if_neg h2, if_neg (by omega)]
    simp only [List.map_map, Option.some.injEq]
    have : (FlagEntry.both ∘ fun (p : Bool × Bool) => FlagEntry.pair p.1 p.2) = id := by
      funext p; rfl
    rw [this, List.map_id]

theorem loopFlags_length (f : Flags) (ndim : Nat) (fl : List (Bool × Bool))
    (h : f.loopFlags ndim = some fl) : fl.length = ndim := by
  unfold Flags.loopFlags at h
  cases f with
  | global b => simp at h; rw [← h]; simp
  | seq l =>
    simp only at h
    split_ifs at h with h1 h2
    · match l, h with
      | [x, y], h => simp at h; rw [← h]; simp; omega
    · simp at h; rw [← h]; simp [h2]

/-- the two differently written normalisations agree on every raw value the first one accepts -/
theorem gridFlags_of_loopFlags (f : Flags) (ndim : Nat) (fl : List (Bool × Bool))
    (h : f.loopFlags ndim = some fl) : f.gridFlags ndim = some fl := by
  unfold Flags.loopFlags at h
  unfold Flags.gridFlags
  cases f with
  | global b => exact h
  | seq l =>
    simp only at h ⊢
    split_ifs at h with h1 h2
    · rw [if_pos ⟨h1.1, h1.2.1⟩]; exact h
    · by_cases h3 : ndim = 1 ∧ l.length = 2
      · omega
      · rw [if_neg h3, if_neg (by omega)]; exact h

theorem mapM_wrapIndex_lt (n : Nat) (l : List Int) (idx : List Nat)
    (h : l.mapM (wrapIndex n) = some idx) : ∀ k ∈ idx, k < n := by
  induction l generalizing idx with
  | nil => simp at h; subst h; simp
  | cons a rest ih =>
    rw [List.mapM_cons] at h
    cases ha : wrapIndex n a with
    | none => simp [ha] at h
    | some j =>
      cases hr : rest.mapM (wrapIndex n) with
      | none => simp [ha, hr] at h
      | some js =>
        simp [ha, hr] at h
        subst h
        intro k hk
        rcases List.mem_cons.mp hk with rfl | hk'
        · have := (wrapIndex_spec n a k).mp ha
          omega
        · exact ih js hr k hk'

/-- list index with arbitrary (also negative) entries, stated on the wrapped cell numbers -/
theorem getList_general (P : Part1) (hv : Valid P) (l : List Int) (first : Nat) (rest : List Nat)
    (hw : l.mapM (wrapIndex P.n) = some (first :: rest))
    (hinc : (first :: rest).Pairwise (· < ·)) :
    ∃ Q, P.getList l = some Q ∧ Valid Q ∧
      Q.n = rest.length + 1 ∧ (∀ i, Q.c i = P.c ((first :: rest).getD i 0)) ∧
      Q.lo = P.bdry first ∧ Q.hi = P.bdry ((first :: rest).getLast (by simp) + 1) := by
  have hlt : ∀ k ∈ first :: rest, k < P.n := mapM_wrapIndex_lt P.n l _ hw
  have hm := hw
  have hget : ∀ i (hi : i < (first :: rest).length), (first :: rest).getD i 0 = (first :: rest)[i] := by
    intro i hi; simp [List.getD, List.getElem?_eq_getElem hi]
  have hlast : (first :: rest).getD ((first :: rest).length - 1) 0 = (first :: rest).getLast (by simp) := by
    rw [hget _ (by simp), List.getLast_eq_getElem]
  let Q : Part1 := ⟨(first :: rest).length, fun i => P.c ((first :: rest).getD i 0), P.bdry first,
    P.bdry ((first :: rest).getLast (by simp) + 1)⟩
  have hQ : Valid Q := by
    refine ⟨by simp [Q], ?_, ?_, ?_⟩
    · intro i hi
      have hi' : i + 1 < (first :: rest).length := hi
      show P.c ((first :: rest).getD i 0) < P.c ((first :: rest).getD (i + 1) 0)
      rw [hget i (by omega), hget (i + 1) hi']
      have h1 : (first :: rest)[i] < (first :: rest)[i + 1] :=
        List.pairwise_iff_getElem.mp hinc i (i + 1) (by omega) hi' (by omega)
      exact hv.c_strict h1 (hlt _ (List.getElem_mem _))
    · show P.bdry first ≤ P.c ((first :: rest).getD 0 0)
      simp only [List.getD_cons_zero]
      exact node_ge_bdry P hv first (hlt first (by simp))
    · show P.c ((first :: rest).getD ((first :: rest).length - 1) 0) ≤ _
      rw [hlast]
      exact node_le_bdry P hv _ (hlt _ (List.getLast_mem _))
  refine ⟨Q, ?_, hQ, by simp [Q], fun i => rfl, rfl, rfl⟩
  unfold Part1.getList
  rw [hm]
  simp only [Option.bind_eq_bind, Option.bind_some, List.head?_cons, List.getLast?_eq_getLast_of_ne_nil (List.cons_ne_nil _ _)]
  have : (⟨(first :: rest).toArray.size, fun i => P.c ((first :: rest).toArray.getD i 0), P.bdry first,
      P.bdry ((first :: rest).getLast (List.cons_ne_nil _ _) + 1)⟩ : Part1) = Q := by
    simp [Q]
  rw [this]
  exact mk?_of_valid Q hQ




theorem nodesOnBdryOld_fails :
    (uniformAxis 64 (64 + 1 / 1024) 4 false false).nodesOnBdryOld Tol.numpy = (true, true) ∧
    (uniformAxis 64 (64 + 1 / 1024) 4 false false).nodesOnBdry (1 / 100000) = (false, false) := by
  constructor
  · simp only [Part1.nodesOnBdryOld, uniformAxis, gminOf, gmaxOf, isClose, Tol.numpy, rabs]
    norm_num
  · exact uniform_nodesOnBdry _ (by norm_num) _ _ (by norm_num) 4 (by decide) false false


theorem gridInsertAt_map (P : Part) (i : Nat) (parts : List Part) :
    gridInsertAt (P.map Part1.vec) i (parts.map fun Q => Q.map Part1.vec) = (insertAt P i parts).map Part1.vec := by
  induction parts generalizing P i with
  | nil => rfl
  | cons Q rest ih =>
    simp only [List.map_cons, gridInsertAt, insertAt, List.length_map]
    rw [← ih]
    simp [List.map_append, List.map_take, List.map_drop]

theorem setInsertAt_map (P : Part) (i : Nat) (parts : List Part) :
    setInsertAt (P.map Part1.intv) i (parts.map fun Q => Q.map Part1.intv) = (insertAt P i parts).map Part1.intv := by
  induction parts generalizing P i with
  | nil => rfl
  | cons Q rest ih =>
    simp only [List.map_cons, setInsertAt, insertAt, List.length_map]
    rw [← ih]
    simp [List.map_append, List.map_take, List.map_drop]

theorem assemble_split (R : Part) (hv : ∀ p ∈ R, Valid p) :
    assemble (R.map Part1.vec) (R.map Part1.intv) = some R := by
  unfold assemble
  rw [if_neg (by simp)]
  have : List.zip (R.map Part1.vec) (R.map Part1.intv) = R.map (fun p => (p.vec, p.intv)) := by
    induction R with
    | nil => rfl
    | cons a rest ih => simp [List.zip_cons_cons, ih (fun p hp => hv p (by simp [hp]))]
  rw [this, List.mapM_map]
  have := mapM_some_of_forall (fun p : Part1 => Part1.mk? ⟨p.vec.1, p.vec.2, p.intv.1, p.intv.2⟩) id R
    (fun p hp => by simpa [Part1.vec, Part1.intv] using mk?_of_valid p (hv p hp))
  simpa [Function.comp_def] using this


theorem insertAt_mem (P : Part) (i : Nat) (hi : i ≤ P.length) (parts : List Part)
    (hP : ∀ p ∈ P, Valid p) (hQ : ∀ Q ∈ parts, ∀ p ∈ Q, Valid p) :
    ∀ p ∈ insertAt P i parts, Valid p := by
  rw [insertAt_block P i hi]
  intro p hp
  simp only [List.mem_append, List.mem_flatten] at hp
  rcases hp with (hp | ⟨Q, hQm, hpQ⟩) | hp
  · exact hP p (List.mem_of_mem_take hp)
  · exact hQ Q hQm p hpQ
  · exact hP p (List.mem_of_mem_drop hp)

/-- the grid path (grid.py) and the set path (domain.py) of `insert` stay aligned -/
theorem insert2_eq (P : Part) (index : Int) (parts : List Part)
    (hP : ∀ p ∈ P, Valid p) (hQ : ∀ Q ∈ parts, ∀ p ∈ Q, Valid p) :
    insert2 P index parts = insert P index parts := by
  unfold insert2 gridInsert setInsert insert
  simp only [List.length_map]
  by_cases h : index < -(P.length : Int) ∨ (P.length : Int) < index
  · simp [h]
  · simp only [h, if_false, Option.bind_eq_bind, Option.bind_some]
    rw [gridInsertAt_map, setInsertAt_map]
    apply assemble_split
    apply insertAt_mem P _ _ parts hP hQ
    split_ifs <;> omega


theorem filterMap_getElem_map {α β} (f : α → β) (l : List α) (idx : List Nat) :
    idx.filterMap (fun i => (l.map f)[i]?) = (idx.filterMap fun i => l[i]?).map f := by
  have : (fun (i : Nat) => (l.map f)[i]?) = fun (i : Nat) => (l[i]?).map f := by funext i; simp
  rw [this, List.map_filterMap]

theorem squeeze2_core (P : Part) (rng : List Nat) (hP : ∀ p ∈ P, Valid p) :
    assemble
      (((List.range P.length).filter fun i =>
          !rng.contains i || decide (1 < ((P.map Part1.vec).getD i (0, fun _ => 0)).1)).filterMap
        fun i => (P.map Part1.vec)[i]?)
      (((List.range P.length).filter fun i =>
          !rng.contains i || decide (1 < ((P.map Part1.vec).getD i (0, fun _ => 0)).1)).filterMap
        fun i => (P.map Part1.intv)[i]?) =
    some (((List.range P.length).filter fun i =>
        !rng.contains i || decide (1 < (P.getD i ⟨0, fun _ => 0, 0, 0⟩).n)).filterMap fun i => P[i]?) := by
  have hk : ((List.range P.length).filter fun i =>
        !rng.contains i || decide (1 < ((P.map Part1.vec).getD i (0, fun _ => 0)).1)) =
      (List.range P.length).filter fun i =>
        !rng.contains i || decide (1 < (P.getD i ⟨0, fun _ => 0, 0, 0⟩).n) := by
    apply List.filter_congr
    intro i hi
    rw [List.mem_range] at hi
    simp [List.getD, hi, Part1.vec]
  rw [hk, filterMap_getElem_map, filterMap_getElem_map]
  apply assemble_split
  intro p hp
  rw [List.mem_filterMap] at hp
  obtain ⟨i, _, hi⟩ := hp
  exact hP p (List.mem_of_getElem? hi)

/-- the set path (`self.set[new_indcs]`) and the grid path (`self.grid.squeeze(axis)`) of `squeeze`
select the same axes -/
theorem squeeze2_eq (P : Part) (axis : Option (List Int)) (hP : ∀ p ∈ P, Valid p) :
    squeeze2 P axis = squeeze P axis := by
  unfold squeeze2 squeeze
  simp only [List.length_map]
  cases axis with
  | none =>
    simp only [Option.bind_eq_bind, Option.bind_some]
    exact squeeze2_core P _ hP
  | some l =>
    cases hl : l.mapM (wrapIndex P.length) with
    | none => simp [hl]
    | some rng =>
      simp only [hl, Option.bind_eq_bind, Option.bind_some]
      exact squeeze2_core P rng hP



theorem rabs_le_iff (x e : Rat) : rabs x ≤ e ↔ -e ≤ x ∧ x ≤ e := by
  unfold rabs; split_ifs <;> constructor <;> intro h <;> (try constructor) <;> (try obtain ⟨h1, h2⟩ := h) <;> linarith

/-- soundness of the parameter completion: whatever `completeAxis` returns is consistent -/
theorem completeAxis_sound (t : Tol) (eps : Rat) (xmin xmax : Option Rat) (n : Option Int) (dx : Option Rat)
    (bl br : Bool) (lo hi : Rat) (m : Int) (d : Rat) (hdx : dx = some d)
    (h : completeAxis t eps xmin xmax n dx bl br = some (lo, hi, m)) :
    (xmin = none ∨ xmax = none → ((m : Rat) - halfCount bl br) * d = hi - lo) ∧
    (n = none → d ≠ 0 ∧ -eps ≤ (hi - lo) / d + halfCount bl br - m ∧ (hi - lo) / d + halfCount bl br - m ≤ eps) ∧
    (xmin.isSome → xmax.isSome → n.isSome →
      rabs (hi - (lo + ((m : Rat) - halfCount bl br) * d)) ≤ t.atol + t.rtol * rabs (lo + ((m : Rat) - halfCount bl br) * d)) := by
  subst hdx
  cases xmin with
  | none =>
    cases xmax with
    | none => cases n <;> simp [completeAxis] at h
    | some b =>
      cases n with
      | none => simp [completeAxis] at h
      | some k =>
        simp only [completeAxis, Option.some.injEq, Prod.mk.injEq] at h
        obtain ⟨h1, h2, h3⟩ := h
        subst h2 h3
        refine ⟨fun _ => by rw [← h1]; ring, fun h => absurd h (by simp), fun h => absurd h (by simp)⟩
  | some a =>
    cases xmax with
    | none =>
      cases n with
      | none => simp [completeAxis] at h
      | some k =>
        simp only [completeAxis, Option.some.injEq, Prod.mk.injEq] at h
        obtain ⟨h1, h2, h3⟩ := h
        subst h1 h3
        refine ⟨fun _ => by rw [← h2]; ring, fun h => absurd h (by simp), fun _ h => absurd h (by simp)⟩
    | some b =>
      cases n with
      | none =>
        simp only [completeAxis] at h
        split_ifs at h with hd he
        simp only [Option.some.injEq, Prod.mk.injEq] at h
        obtain ⟨h1, h2, h3⟩ := h
        subst h1 h2
        refine ⟨fun h => by rcases h with h | h <;> simp at h, fun _ => ⟨hd, ?_⟩,
          fun _ _ h => absurd h (by simp)⟩
        have := (rabs_le_iff _ eps).mp (le_of_not_gt he)
        rw [← h3]
        exact this
      | some k =>
        simp only [completeAxis] at h
        split_ifs at h with hc
        simp only [Option.some.injEq, Prod.mk.injEq] at h
        obtain ⟨h1, h2, h3⟩ := h
        subst h1 h2 h3
        refine ⟨fun h => by rcases h with h | h <;> simp at h, fun h => absurd h (by simp),
          fun _ _ _ => ?_⟩
        simpa [isClose] using hc


/-- a negative step never yields a partition with two or more nodes: the selected nodes would be
decreasing and `RectGrid` rejects them -/
theorem getSlice_neg_step (P : Part1) (hv : Valid P) (start stop : Option Int) (st : Int) (hst : st < 0)
    (Q : Part1) (h : P.getSlice start stop (some st) = some Q) : Q.n ≤ 1 := by
  unfold Part1.getSlice Part1.mk? at h
  simp only [Option.getD_some] at h
  split_ifs at h with h1 h2 h3 hw
  simp only [Option.some.injEq] at h
  subst h
  simp only []
  by_contra hc
  have hvQ := valid_of_wf _ hw
  have hm := hvQ.mono 0 (by simp only []; omega)
  simp only [] at hm
  -- the slice bounds for a negative step
  have hb : (sliceIndices start stop st P.n).1 ≤ (P.n : Int) - 1 ∧ -1 ≤ (sliceIndices start stop st P.n).2 := by
    unfold sliceIndices
    simp only [hst, if_true]
    constructor
    · cases start with
      | none => simp
      | some a => simp only []; split_ifs <;> omega
    · cases stop with
      | none => simp
      | some a => simp only []; split_ifs <;> omega
  generalize (sliceIndices start stop st P.n).1 = g0 at *
  generalize (sliceIndices start stop st P.n).2 = g1 at *
  -- at least two selected nodes: g0 + st ≥ g1 + 1 ≥ 0
  have hlen : 2 ≤ sliceLen g0 g1 st := by omega
  unfold sliceLen at hlen
  rw [if_neg (by omega)] at hlen
  split_ifs at hlen with hlt
  · have hq : 1 ≤ (g0 - g1 - 1) / (-st) := by omega
    have hmul : (-st) * 1 ≤ g0 - g1 - 1 := by
      have := Int.mul_le_of_le_ediv (by omega : 0 < -st) hq
      linarith
    have i0 : (g0 + ((0 : Nat) : Int) * st).toNat = g0.toNat := by simp
    have i1 : (g0 + ((0 + 1 : Nat) : Int) * st).toNat = (g0 + st).toNat := by simp
    rw [i0, i1] at hm
    have : P.c (g0 + st).toNat < P.c g0.toNat := hv.c_strict (by omega) (by omega)
    linarith
  · omega


/-- selecting from `0 … n-1` the members of a strictly increasing list gives back that list -/
theorem filter_range_sorted (n : Nat) (sel : List Nat) (hs : sel.Pairwise (· < ·)) (hlt : ∀ k ∈ sel, k < n) :
    (List.range n).filter (fun j => sel.contains j) = sel := by
  have hperm : ((List.range n).filter (fun j => sel.contains j)).Perm sel := by
    apply (List.perm_ext_iff_of_nodup ((List.nodup_range (n := n)).filter _) (hs.imp (fun h => ne_of_lt h))).mpr
    intro a
    simp only [List.mem_filter, List.mem_range, List.contains_iff_mem]
    constructor
    · intro h; simpa using h.2
    · intro h; exact ⟨hlt a h, by simpa using h⟩
  exact List.Perm.eq_of_pairwise (le := (· < ·)) (fun a b _ _ h1 h2 => absurd h1 (by omega))
    ((List.pairwise_lt_range (n := n)).filter _) hs hperm

/-- `byaxis[start:stop:step]`, arbitrary bounds, step ≥ 1 (or omitted): the axes
`s, s + step, …` below `e` (clamped bounds), in order, each unchanged -/
theorem byaxisSlice_spec (P : Part) (hv : ∀ p ∈ P, Valid p) (start stop step : Option Int) (st : Nat)
    (hst : 1 ≤ st) (hstep : step.getD 1 = (st : Int)) :
    let s := clampBound P.length 0 start
    let e := clampBound P.length P.length stop
    byaxisSlice P start stop step =
      some ((List.range (sliceLen s e st)).filterMap fun i => P[s.toNat + i * st]?) := by
  intro s e
  have hs := clampBound_range P.length 0 ⟨le_refl _, by omega⟩ start
  have he := clampBound_range P.length P.length ⟨by omega, le_refl _⟩ stop
  have hstp : (0 : Int) < st := by omega
  unfold byaxisSlice
  simp only [hstep]
  rw [if_neg (by omega), sliceIndices_pos_spec start stop st hstp P.length]
  simp only []
  rw [byaxisSel_spec P hv]
  have hidx : (List.range (sliceLen s e st)).map (fun (i : Nat) => (s + (i : Int) * (st : Int)).toNat) =
      (List.range (sliceLen s e st)).map (fun i => s.toNat + i * st) := by
    apply List.map_congr_left
    intro i _
    have : s + (i : Int) * (st : Int) = ((s.toNat + i * st : Nat) : Int) := by
      push_cast; omega
    rw [this, Int.toNat_natCast]
  rw [hidx]
  have hsorted : ((List.range (sliceLen s e st)).map (fun i => s.toNat + i * st)).Pairwise (· < ·) := by
    rw [List.pairwise_map]
    apply (List.pairwise_lt_range).imp
    intro a b hab
    have : a * st < b * st := Nat.mul_lt_mul_of_pos_right hab (by omega)
    omega
  have hlt : ∀ k ∈ (List.range (sliceLen s e st)).map (fun i => s.toNat + i * st), k < P.length := by
    intro k hk
    rw [List.mem_map] at hk
    obtain ⟨i, hi, rfl⟩ := hk
    rw [List.mem_range] at hi
    unfold sliceLen at hi
    rw [if_pos hstp] at hi
    split_ifs at hi with hse
    · have h1 : (i : Int) ≤ (e - s - 1) / (st : Int) := by omega
      have h2 : (i : Int) * st ≤ e - s - 1 := by
        have := Int.mul_le_of_le_ediv hstp h1
        linarith
      have : ((s.toNat + i * st : Nat) : Int) < P.length := by push_cast; omega
      exact_mod_cast this
    · omega
  rw [filter_range_sorted P.length _ hsorted hlt, List.filterMap_map]
  rfl


theorem squeeze_idem (P : Part) :
    (squeeze P none).bind (fun Q => squeeze Q none) = squeeze P none ∧
    ∀ Q, squeeze P none = some Q → ∀ p ∈ Q, 1 < p.n := by
  rw [squeeze_all]
  constructor
  · simp only [Option.bind_some]
    rw [squeeze_all, List.filter_filter]
    simp
  · intro Q h p hp
    simp only [Option.some.injEq] at h
    subst h
    simpa using (List.mem_filter.mp hp).2

/-! ### round 4: index of a grid point, n-d points, cell volume / isotropy of uniform partitions,
constructor equivalences -/

theorem bdry_mono_le (P : Part1) (hv : Valid P) (hn : Nondegenerate P) (j k : Nat) (hjk : j ≤ k)
    (hk : k ≤ P.n) : P.bdry j ≤ P.bdry k := by
  induction k with
  | zero => have : j = 0 := by omega
            subst this; exact le_refl _
  | succ k ih =>
    rcases Nat.lt_or_ge j (k + 1) with h | h
    · exact le_trans (ih (by omega) (by omega)) (le_of_lt (bdry_lt_succ P hv hn k (by omega)))
    · have : j = k + 1 := by omega
      subst this; exact le_refl _

theorem node_lt_bdry_succ (P : Part1) (hv : Valid P) (i : Nat) (hi : i + 1 < P.n) :
    P.c i < P.bdry (i + 1) := by
  rw [bdry_succ_mid P i hi]
  have := hv.mono i hi
  linarith

/-- index of a grid point is its own number -/
theorem index_node (P : Part1) (hv : Valid P) (i : Nat) (hi : i < P.n) :
    P.index (P.c i) = some (i : Int) := by
  have hlo : P.lo ≤ P.c i := le_trans hv.lo_le (hv.c_mono (Nat.zero_le i) hi)
  have hhi : P.c i ≤ P.hi := le_trans (hv.c_mono (show i ≤ P.n - 1 by omega) (by have := hv.pos; omega)) hv.le_hi
  by_cases hn : Nondegenerate P
  · obtain ⟨k, hk, hkn, hb1, hb2, _⟩ := index_spec P hv (bdry_lt_succ P hv hn) (P.c i) hlo hhi
    rw [hk]
    congr 1
    rcases Nat.lt_trichotomy k i with h | h | h
    · exfalso
      rcases hb2 with h2 | ⟨h2, _⟩
      · have := bdry_mono_le P hv hn (k + 1) i (by omega) (by omega)
        have := node_ge_bdry P hv i hi
        linarith
      · omega
    · rw [h]
    · exfalso
      have h1 := node_lt_bdry_succ P hv i (by omega)
      have := bdry_mono_le P hv hn (i + 1) k (by omega) (by omega)
      linarith
  · have h1 : P.n = 1 := by
      unfold Nondegenerate at hn; have := hv.pos; omega
    have h2 : P.lo = P.hi := by
      unfold Nondegenerate at hn
      have : P.lo ≤ P.hi := le_trans hlo hhi
      have h3 : ¬ P.lo < P.hi := fun h => hn (Or.inr h)
      linarith
    have hi0 : i = 0 := by omega
    subst hi0
    have hc : P.c 0 = P.lo := by
      have := hv.lo_le
      have h4 := hv.le_hi
      rw [h1] at h4
      simp at h4
      linarith
    rw [hc]
    simpa using (index_degenerate P hv h1 h2).1

theorem mem_coords (P : Part1) (x : Rat) : x ∈ P.coords ↔ ∃ i, i < P.n ∧ x = P.c i := by
  unfold Part1.coords
  simp only [List.mem_map, List.mem_range]
  constructor
  · rintro ⟨i, hi, rfl⟩; exact ⟨i, hi, rfl⟩
  · rintro ⟨i, hi, rfl⟩; exact ⟨i, hi, rfl⟩

/-- the point with multi-index `mi` -/
def pointAt : Part → List Nat → List Rat
  | p :: rest, i :: mi => p.c i :: pointAt rest mi
  | _, _ => []

/-- `mi` is a multi-index of `P` -/
def InRange : Part → List Nat → Prop
  | [], [] => True
  | p :: rest, i :: mi => i < p.n ∧ InRange rest mi
  | _, _ => False

theorem ndPoints_spec (P : Part) (v : List Rat) :
    v ∈ ndPoints P ↔ ∃ mi, InRange P mi ∧ v = pointAt P mi := by
  induction P generalizing v with
  | nil =>
    simp only [ndPoints, List.mem_singleton]
    constructor
    · rintro rfl; exact ⟨[], trivial, rfl⟩
    · rintro ⟨mi, h1, h2⟩
      cases mi with
      | nil => simpa [pointAt] using h2
      | cons a b => exact absurd h1 (by simp [InRange])
  | cons p rest ih =>
    simp only [ndPoints, List.mem_flatMap, List.mem_map]
    constructor
    · rintro ⟨x, hx, w, hw, rfl⟩
      obtain ⟨i, hi, rfl⟩ := (mem_coords p x).1 hx
      obtain ⟨mi, h1, rfl⟩ := (ih w).1 hw
      exact ⟨i :: mi, ⟨hi, h1⟩, rfl⟩
    · rintro ⟨mi, h1, h2⟩
      cases mi with
      | nil => exact absurd h1 (by simp [InRange])
      | cons i mi =>
        obtain ⟨hi, h1⟩ := h1
        refine ⟨p.c i, (mem_coords p _).2 ⟨i, hi, rfl⟩, pointAt rest mi, (ih _).2 ⟨mi, h1, rfl⟩, ?_⟩
        rw [h2]; rfl

theorem ndIndex_pointAt (P : Part) (hv : ∀ p ∈ P, Valid p) (mi : List Nat) (h : InRange P mi) :
    ndIndex P (pointAt P mi) = some (mi.map fun (i : Nat) => (i : Int)) := by
  induction P generalizing mi with
  | nil =>
    cases mi with
    | nil => rfl
    | cons a b => exact absurd h (by simp [InRange])
  | cons p rest ih =>
    cases mi with
    | nil => exact absurd h (by simp [InRange])
    | cons i mi =>
      obtain ⟨hi, h1⟩ := h
      have hp : Valid p := hv p (by simp)
      have := ih (fun q hq => hv q (by simp [hq])) mi h1
      simp [pointAt, ndIndex, index_node p hp i hi, this]

theorem ndPoints_length (P : Part) : (ndPoints P).length = ndSize P := by
  induction P with
  | nil => rfl
  | cons p rest ih =>
    simp only [ndPoints, ndSize, List.length_flatMap, List.length_map, ih]
    simp [Part1.coords, Function.comp_def]

theorem uniform_ends (lo hi : Rat) (n : Nat) (hn : 2 ≤ n) (bl br : Bool) :
    (if bl then (uniformAxis lo hi n bl br).c 0
      else (uniformAxis lo hi n bl br).c 0 -
        ((uniformAxis lo hi n bl br).c 1 - (uniformAxis lo hi n bl br).c 0) / 2) = lo ∧
    (if br then (uniformAxis lo hi n bl br).c (n - 1)
      else (uniformAxis lo hi n bl br).c (n - 1) +
        ((uniformAxis lo hi n bl br).c (n - 1) - (uniformAxis lo hi n bl br).c (n - 2)) / 2) = hi := by
  have hpos := halfCount_lt bl br n hn
  have hne : (n : Rat) - halfCount bl br ≠ 0 := ne_of_gt hpos
  have d0 := uniform_diff lo hi n hn bl br 0
  have dl := uniform_diff lo hi n hn bl br (n - 2)
  have e1 : n - 2 + 1 = n - 1 := by omega
  rw [e1] at dl
  simp only [Nat.zero_add] at d0
  have hcast : ((n - 1 : Nat) : Rat) = (n : Rat) - 1 := by rw [Nat.cast_sub (by omega)]; simp
  have hh : (hi - lo) / ((n : Rat) - halfCount bl br) * ((n : Rat) - halfCount bl br) = hi - lo :=
    div_mul_cancel₀ _ hne
  constructor
  · cases bl
    · simp only [Bool.false_eq_true, if_false]
      rw [d0, uniform_nodes lo hi n hn]; simp; ring
    · simp only [if_true]
      rw [uniform_nodes lo hi n hn]; simp
  · cases br
    · simp only [Bool.false_eq_true, if_false]
      rw [dl, uniform_nodes lo hi n hn, hcast]
      generalize (hi - lo) / ((n : Rat) - halfCount bl false) = h at hh ⊢
      cases bl <;> simp [halfCount] at hh ⊢ <;> linarith
    · simp only [if_true]
      rw [uniform_nodes lo hi n hn, hcast]
      generalize (hi - lo) / ((n : Rat) - halfCount bl true) = h at hh ⊢
      cases bl <;> simp [halfCount] at hh ⊢ <;> linarith

theorem reNonuniform_uniform (lo hi : Rat) (hlh : lo < hi) (n : Nat) (hn : 2 ≤ n) (bl br : Bool) :
    reNonuniform (uniformAxis lo hi n bl br) bl br = some (uniformAxis lo hi n bl br) := by
  obtain ⟨h1, h2⟩ := uniform_ends lo hi n hn bl br
  have hne : ¬ n = 1 := by omega
  have hv := uniform_valid lo hi hlh n (by omega) bl br
  have hn' : (uniformAxis lo hi n bl br).n = n := rfl
  unfold reNonuniform nonuniformAxis
  simp only [Option.isSome_none, Bool.false_and, Bool.or_false, Bool.false_eq_true, if_false, hn',
    hne, decide_false, Bool.or_false]
  cases bl <;> cases br <;> simp only [Bool.false_eq_true, if_false, if_true] at h1 h2 ⊢ <;>
    rw [h1, h2] <;> exact mk?_of_valid _ hv

theorem reFromGrid_uniform (lo hi : Rat) (hlh : lo < hi) (n : Nat) (hn : 2 ≤ n) (bl br : Bool) :
    reFromGrid (uniformAxis lo hi n bl br) bl br = some (uniformAxis lo hi n bl br) := by
  obtain ⟨h1, h2⟩ := uniform_ends lo hi n hn bl br
  have hne : ¬ n = 1 := by omega
  have hv := uniform_valid lo hi hlh n (by omega) bl br
  have hn' : (uniformAxis lo hi n bl br).n = n := rfl
  have hlo : (uniformAxis lo hi n bl br).lo = lo := rfl
  have hhi : (uniformAxis lo hi n bl br).hi = hi := rfl
  unfold reFromGrid fromGridAxis
  cases bl <;> cases br <;>
    simp only [Bool.false_eq_true, if_false, if_true, hn', hne, hlo, hhi] at h1 h2 ⊢ <;>
    simp only [Option.bind_eq_bind, Option.bind_some, h1, h2] <;>
    exact mk?_of_valid _ hv

/-- parameters of one axis of `uniform_partition_fromintv` -/
structure UAxis where
  lo : Rat
  hi : Rat
  n : Nat
  bl : Bool
  br : Bool

def UAxis.part (a : UAxis) : Part1 := uniformAxis a.lo a.hi a.n a.bl a.br
def UAxis.side (a : UAxis) : Rat := (a.hi - a.lo) / ((a.n : Rat) - halfCount a.bl a.br)

theorem fromIntv_axes (A : List UAxis) (h : ∀ a ∈ A, a.lo < a.hi ∧ 1 ≤ a.n) :
    fromIntv (A.map (·.lo)) (A.map (·.hi)) (A.map (·.n)) (A.map fun a => (a.bl, a.br)) =
      some (A.map UAxis.part) := by
  unfold fromIntv
  simp only [List.length_map, ne_eq, not_true_eq_false, or_self, if_false]
  rw [List.zip_map', List.zip_map', List.zip_map']
  rw [List.mapM_map]
  apply mapM_some_of_forall
  intro a ha
  obtain ⟨h1, h2⟩ := h a ha
  simp only [Function.comp]
  rw [if_neg (not_lt.2 (le_of_lt h1))]
  exact mk?_of_valid _ (uniform_valid a.lo a.hi h1 a.n h2 a.bl a.br)

theorem ndCellSides_uniform (tol : Part1 → Tol) (ht : ∀ p, 0 ≤ (tol p).atol ∧ 0 ≤ (tol p).rtol)
    (A : List UAxis) (h : ∀ a ∈ A, a.lo < a.hi ∧ 2 ≤ a.n) :
    ndCellSides tol (A.map UAxis.part) = some (A.map UAxis.side) := by
  induction A with
  | nil => rfl
  | cons a A ih =>
    obtain ⟨h1, h2⟩ := h a (by simp)
    have := uniform_cellSide (tol a.part) (ht _).1 (ht _).2 a.lo a.hi h1 a.n h2 a.bl a.br
    simp only [List.map_cons, ndCellSides]
    rw [show uniformAxis a.lo a.hi a.n a.bl a.br = a.part from rfl] at this
    rw [this, ih (fun b hb => h b (by simp [hb]))]
    rfl

theorem prod_sides (A : List UAxis) (h : ∀ a ∈ A, a.lo < a.hi ∧ 2 ≤ a.n) :
    prodList (A.map UAxis.side) * prodList (A.map fun a => (a.n : Rat) - halfCount a.bl a.br) =
      prodList (A.map fun a => a.hi - a.lo) := by
  induction A with
  | nil => simp [prodList]
  | cons a A ih =>
    obtain ⟨h1, h2⟩ := h a (by simp)
    have hne : (a.n : Rat) - halfCount a.bl a.br ≠ 0 := ne_of_gt (halfCount_lt a.bl a.br a.n h2)
    have hs : a.side * ((a.n : Rat) - halfCount a.bl a.br) = a.hi - a.lo := div_mul_cancel₀ _ hne
    simp only [List.map_cons, prodList]
    rw [← ih (fun b hb => h b (by simp [hb])), ← hs]
    ring

theorem ndIsUniform_uniform (tol : Part1 → Tol) (ht : ∀ p, 0 ≤ (tol p).atol ∧ 0 ≤ (tol p).rtol)
    (A : List UAxis) (h : ∀ a ∈ A, a.lo < a.hi ∧ 2 ≤ a.n) :
    ndIsUniform tol (A.map UAxis.part) = true := by
  unfold ndIsUniform
  rw [List.all_eq_true]
  intro p hp
  obtain ⟨a, ha, rfl⟩ := List.mem_map.1 hp
  obtain ⟨h1, h2⟩ := h a ha
  have := uniform_cellSide (tol a.part) (ht _).1 (ht _).2 a.lo a.hi h1 a.n h2 a.bl a.br
  rw [show uniformAxis a.lo a.hi a.n a.bl a.br = a.part from rfl] at this
  unfold Part1.cellSide at this
  by_contra hc
  simp [hc] at this

theorem allClose_replicate (t : Tol) (h1 : 0 ≤ t.atol) (h2 : 0 ≤ t.rtol) (s : Rat) (k m : Nat) :
    allClose t (List.replicate k s) (List.replicate m s) = true := by
  induction k generalizing m with
  | zero => simp [allClose]
  | succ k ih =>
    cases m with
    | zero => simp [allClose, List.replicate]
    | succ m => simp [allClose, List.replicate, isClose_self t h1 h2 s, ih m]

theorem map_eq_replicate' {α β} (f : α → β) (l : List α) (b : β) (h : ∀ a ∈ l, f a = b) :
    l.map f = List.replicate l.length b := by
  induction l with
  | nil => rfl
  | cons a l ih =>
    simp only [List.map_cons, List.length_cons, List.replicate_succ]
    rw [h a (by simp), ih (fun x hx => h x (by simp [hx]))]

theorem ndIsotropic_uniform (tol : Part1 → Tol) (ht : ∀ p, 0 ≤ (tol p).atol ∧ 0 ≤ (tol p).rtol)
    (t : Tol) (h1 : 0 ≤ t.atol) (h2 : 0 ≤ t.rtol)
    (A : List UAxis) (h : ∀ a ∈ A, a.lo < a.hi ∧ 2 ≤ a.n) (s : Rat) (hs : ∀ a ∈ A, a.side = s) :
    ndIsotropic tol t (A.map UAxis.part) = true := by
  unfold ndIsotropic
  rw [ndIsUniform_uniform tol ht A h, ndCellSides_uniform tol ht A h, map_eq_replicate' _ A s hs]
  simp only [Bool.true_and]
  cases hA : A.length with
  | zero => simp [allClose]
  | succ k =>
    rw [List.replicate_succ, List.tail_cons]
    rw [show s :: List.replicate k s = List.replicate (k + 1) s from rfl, List.dropLast_replicate]
    exact allClose_replicate t h1 h2 s _ _

/-- two tolerance-free isotropy: all sides equal -/
theorem allClose_exact_chain (s : List Rat) (h : allClose Tol.exact s.dropLast s.tail = true) :
    ∀ x ∈ s, ∀ y ∈ s, x = y := by
  induction s with
  | nil => simp
  | cons a s ih =>
    cases s with
    | nil => simp
    | cons b s =>
      simp only [List.dropLast_cons_cons, List.tail_cons, allClose, Bool.and_eq_true] at h
      have hab : a = b := (isClose_exact_iff a b).1 h.1
      have := ih (by simpa using h.2)
      intro x hx y hy
      have hx' : x ∈ b :: s := by
        rcases List.mem_cons.1 hx with rfl | hx
        · rw [hab]; simp
        · exact hx
      have hy' : y ∈ b :: s := by
        rcases List.mem_cons.1 hy with rfl | hy
        · rw [hab]; simp
        · exact hy
      exact this x hx' y hy'

/-! ### round 4 (second part): converse of the list index, the n-d `uniform_partition` front end,
n-d point location -/

theorem pairwise_of_adjacent (idx : List Nat)
    (adj : ∀ i (h : i + 1 < idx.length), idx[i] < idx[i + 1]) : idx.Pairwise (· < ·) := by
  rw [List.pairwise_iff_getElem]
  intro i j hi hj hij
  obtain ⟨d, rfl⟩ : ∃ d, j = i + d + 1 := ⟨j - i - 1, by omega⟩
  induction d with
  | zero => exact adj i hj
  | succ d ih =>
    have h1 := ih (by omega) (by omega)
    have h2 := adj (i + d + 1) hj
    exact lt_trans h1 h2

theorem toArray_getD_lt (l : List Nat) (i : Nat) (h : i < l.length) : l.toArray.getD i 0 = l[i] := by
  simp [Array.getD, h]

theorem getList_some_sorted (P : Part1) (hv : Valid P) (l : List Int) (Q : Part1)
    (h : P.getList l = some Q) :
    ∃ first rest, l.mapM (wrapIndex P.n) = some (first :: rest) ∧
      (first :: rest).Pairwise (· < ·) := by
  unfold Part1.getList at h
  cases hw : l.mapM (wrapIndex P.n) with
  | none => simp [hw] at h
  | some idx =>
    cases idx with
    | nil => simp [hw] at h
    | cons first rest =>
      refine ⟨first, rest, rfl, ?_⟩
      have hlt : ∀ k ∈ first :: rest, k < P.n := mapM_wrapIndex_lt P.n l _ hw
      rw [hw] at h
      simp only [Option.bind_eq_bind, Option.bind_some, List.head?_cons,
        List.getLast?_eq_getLast_of_ne_nil (List.cons_ne_nil _ _)] at h
      unfold Part1.mk? at h
      split at h
      · rename_i hwf
        have hV := valid_of_wf _ hwf
        apply pairwise_of_adjacent
        intro i hi
        have hm : P.c ((first :: rest).toArray.getD i 0) < P.c ((first :: rest).toArray.getD (i + 1) 0) :=
          hV.mono i (by simpa using hi)
        have e1 := toArray_getD_lt (first :: rest) i (by omega)
        have e2 := toArray_getD_lt (first :: rest) (i + 1) hi
        rw [e1, e2] at hm
        by_contra hc
        have := hv.c_mono (not_lt.1 hc) (hlt _ (List.getElem_mem _))
        linarith
      · simp at h

/-- one axis of a `uniform_partition` request: `(min, max, shape, cell_sides)` entries, each possibly `None` -/
structure Req where
  xmin : Option Rat
  xmax : Option Rat
  n : Option Int
  dx : Option Rat

theorem uniformPartition_axes (t : Tol) (eps : Rat) (AR : List (UAxis × Req)) (f : Flags)
    (hf : f.loopFlags AR.length = some (AR.map fun x => (x.1.bl, x.1.br)))
    (hreq : ∀ x ∈ AR, completeAxis t eps x.2.xmin x.2.xmax x.2.n x.2.dx x.1.bl x.1.br =
      some (x.1.lo, x.1.hi, (x.1.n : Int)))
    (h : ∀ x ∈ AR, x.1.lo < x.1.hi ∧ 1 ≤ x.1.n) :
    uniformPartition t eps (AR.map (·.2.xmin)) (AR.map (·.2.xmax)) (AR.map (·.2.n)) (AR.map (·.2.dx)) f =
      some (AR.map fun x => x.1.part) := by
  have hlen : (AR.map fun x => (x.1.bl, x.1.br)).length = AR.length := by simp
  have hgf := gridFlags_ofNormalized (AR.map fun x => (x.1.bl, x.1.br)) AR.length hlen
  have hdone : (List.zip (List.zip (AR.map (·.2.xmin)) (AR.map (·.2.xmax)))
      (List.zip (List.zip (AR.map (·.2.n)) (AR.map (·.2.dx))) (AR.map fun x => (x.1.bl, x.1.br)))).mapM
      (fun (x : (Option Rat × Option Rat) × ((Option Int × Option Rat) × (Bool × Bool))) =>
        completeAxis t eps x.1.1 x.1.2 x.2.1.1 x.2.1.2 x.2.2.1 x.2.2.2) =
      some (AR.map fun x => (x.1.lo, x.1.hi, (x.1.n : Int))) := by
    rw [List.zip_map', List.zip_map', List.zip_map', List.zip_map', List.mapM_map]
    apply mapM_some_of_forall
    intro x hx
    exact hreq x hx
  have hA := fromIntv_axes (AR.map (·.1)) (by
    intro a ha
    obtain ⟨x, hx, rfl⟩ := List.mem_map.1 ha
    exact h x hx)
  simp only [List.map_map] at hA
  unfold uniformPartition
  simp only [List.length_map, ne_eq, not_true_eq_false, or_self, if_false, hf]
  simp only [Option.bind_eq_bind, Option.bind_some]
  rw [hdone, hgf]
  simp only [Option.bind_some]
  have hany : ((AR.map fun x => (x.1.lo, x.1.hi, (x.1.n : Int))).any fun x => decide (x.2.2 < 1)) = false := by
    rw [List.any_eq_false]
    intro y hy
    obtain ⟨x, hx, rfl⟩ := List.mem_map.1 hy
    have := (h x hx).2
    simp only [decide_eq_true_eq, not_lt]
    omega
  rw [hany]
  simp only [Bool.false_eq_true, if_false, List.map_map, Function.comp_def, Int.toNat_natCast] at hA ⊢
  exact hA

/-- `v` lies in the partitioned box -/
def InBox : Part → List Rat → Prop
  | [], [] => True
  | p :: P, x :: v => (p.lo ≤ x ∧ x ≤ p.hi) ∧ InBox P v
  | _, _ => False

/-- cell `ks` contains `v` (half-open cells, the last one closed) -/
def InCells : Part → List Rat → List Nat → Prop
  | [], [], [] => True
  | p :: P, x :: v, k :: ks =>
      (k < p.n ∧ p.bdry k ≤ x ∧ (x < p.bdry (k + 1) ∨ (k + 1 = p.n ∧ x = p.hi))) ∧ InCells P v ks
  | _, _, _ => False

theorem ndIndex_correct (P : Part) (hv : ∀ p ∈ P, Valid p ∧ Nondegenerate p) (v : List Rat)
    (hb : InBox P v) :
    ∃ ks : List Nat, ndIndex P v = some (ks.map fun (k : Nat) => (k : Int)) ∧ InCells P v ks := by
  induction P generalizing v with
  | nil =>
    cases v with
    | nil => exact ⟨[], rfl, trivial⟩
    | cons x v => exact absurd hb (by simp [InBox])
  | cons p P ih =>
    cases v with
    | nil => exact absurd hb (by simp [InBox])
    | cons x v =>
      obtain ⟨⟨h1, h2⟩, hb'⟩ := hb
      obtain ⟨hp, hn⟩ := hv p (by simp)
      obtain ⟨k, hk, hkn, hb1, hb2, _⟩ := index_spec p hp (bdry_lt_succ p hp hn) x h1 h2
      obtain ⟨ks, hks, hc⟩ := ih (fun q hq => hv q (by simp [hq])) v hb'
      refine ⟨k :: ks, ?_, ⟨hkn, hb1, hb2⟩, hc⟩
      simp [ndIndex, hk, hks]

theorem ndIndex_outside (P : Part) (v : List Rat) (hb : ¬ InBox P v) : ndIndex P v = none := by
  induction P generalizing v with
  | nil =>
    cases v with
    | nil => exact absurd trivial hb
    | cons x v => rfl
  | cons p P ih =>
    cases v with
    | nil => rfl
    | cons x v =>
      by_cases hx : p.lo ≤ x ∧ x ≤ p.hi
      · have hb' : ¬ InBox P v := fun h => hb ⟨hx, h⟩
        simp [ndIndex, ih v hb']
      · have : p.index x = none := by
          unfold Part1.index
          rw [if_pos]
          rcases not_and_or.1 hx with h | h
          · exact Or.inl (not_le.1 h)
          · exact Or.inr (not_le.1 h)
        simp [ndIndex, this]

/-! ### round 4 (third part): `is_uniform` with its tolerance -/

theorem isUniform_iff (t : Tol) (P : Part1) :
    P.isUniform t = true ↔
      ∀ i, i + 1 < P.n → rabs ((P.c (i + 1) - P.c i) - (P.c 1 - P.c 0)) ≤ t.atol + t.rtol * rabs (P.c 1 - P.c 0) := by
  unfold Part1.isUniform isClose
  rw [List.all_eq_true]
  constructor
  · intro h i hi
    have := h i (List.mem_range.2 (by omega))
    simpa using this
  · intro h i hi
    have := h i (by have := List.mem_range.1 hi; omega)
    simpa using this

theorem isUniform_of_equal_diffs (t : Tol) (h1 : 0 ≤ t.atol) (h2 : 0 ≤ t.rtol) (P : Part1)
    (h : ∀ i, i + 1 < P.n → P.c (i + 1) - P.c i = P.c 1 - P.c 0) : P.isUniform t = true := by
  rw [isUniform_iff]
  intro i hi
  rw [h i hi, sub_self, rabs_zero]
  have : 0 ≤ rabs (P.c 1 - P.c 0) := by unfold rabs; split_ifs <;> linarith
  positivity

theorem isUniform_exact_iff (P : Part1) :
    P.isUniform Tol.exact = true ↔ ∀ i, i < P.n → P.c i = P.c 0 + (i : Rat) * (P.c 1 - P.c 0) := by
  rw [isUniform_iff]
  simp only [Tol.exact, zero_mul, add_zero]
  constructor
  · intro h i
    induction i with
    | zero => intro _; simp
    | succ i ih =>
      intro hi
      have h0 := (rabs_le_iff _ 0).1 (h i hi)
      have := ih (by omega)
      push_cast
      linarith [h0.1, h0.2]
  · intro h i hi
    have a := h (i + 1) hi
    have b := h i (by omega)
    push_cast at a
    have : P.c (i + 1) - P.c i - (P.c 1 - P.c 0) = 0 := by rw [a, b]; ring
    rw [this, rabs_zero]

/-- drift of a grid the code calls uniform from the exactly affine grid through its first two nodes -/
theorem isUniform_drift (t : Tol) (P : Part1) (h : P.isUniform t = true) (i : Nat) (hi : i < P.n) :
    rabs (P.c i - (P.c 0 + (i : Rat) * (P.c 1 - P.c 0))) ≤
      (i : Rat) * (t.atol + t.rtol * rabs (P.c 1 - P.c 0)) := by
  rw [isUniform_iff] at h
  induction i with
  | zero => simp [rabs_zero]
  | succ i ih =>
    have h0 := (rabs_le_iff _ _).1 (h i hi)
    have h1 := (rabs_le_iff _ _).1 (ih (by omega))
    rw [rabs_le_iff]
    push_cast
    constructor <;> nlinarith [h0.1, h0.2, h1.1, h1.2]

/-! ### round 4: negative step from cell 0 (finding C14-F5) -/

theorem getSlice_neg_from_zero (P : Part1) (hv : Valid P) (hn : 2 ≤ P.n) (st : Int) (hst : st < 0) :
    ∃ Q, P.getSlice (some 0) none (some st) = some Q ∧ Q.n = 1 ∧ Q.c 0 = P.c 0 ∧
      Q.lo = P.lo ∧ Q.hi = P.hi ∧ P.bdry 1 < Q.hi := by
  have hL : (P.n : Int) ≠ 0 := by omega
  have hg : sliceIndices (some 0) none st P.n = (0, -1) := by
    simp only [sliceIndices, hst, if_true]
    have : ¬ ((0 : Int) < 0) := by omega
    simp only [this, if_false]
    congr 1
    omega
  have hh : sliceIndices (some 0) none 1 P.n = (0, (P.n : Int)) := by
    simp only [sliceIndices]
    have h1 : ¬ ((1 : Int) < 0) := by omega
    have : ¬ ((0 : Int) < 0) := by omega
    simp only [h1, this, if_false]
    have hmin : min (0 : Int) (P.n : Int) = 0 := by omega
    rw [hmin]
  have hm : sliceLen 0 (-1) st = 1 := by
    unfold sliceLen
    have h1 : ¬ (0 < st) := by omega
    rw [if_neg h1, if_pos (by omega)]
    have : ((0 : Int) - -1 - 1) / -st = 0 := by simp
    rw [this]; rfl
  let Q : Part1 := ⟨1, fun (i : Nat) => P.c ((0 : Int) + (i : Int) * st).toNat, P.bdry 0, P.bdry P.n⟩
  have hc0 : Q.c 0 = P.c 0 := by simp [Q]
  have hlo : Q.lo = P.lo := bdry_zero P hv.pos
  have hhi : Q.hi = P.hi := bdry_last P
  have hQ : Valid Q := by
    refine ⟨le_refl _, fun i hi => absurd hi (by simp [Q]), ?_, ?_⟩
    · rw [hlo, hc0]; exact hv.lo_le
    · show Q.c (1 - 1) ≤ Q.hi
      rw [hhi, show (1 : Nat) - 1 = 0 from rfl, hc0]
      exact le_trans (hv.c_mono (Nat.zero_le _) (by omega)) hv.le_hi
  refine ⟨Q, ?_, rfl, hc0, hlo, hhi, ?_⟩
  · unfold Part1.getSlice
    have c1 : ((some (0 : Int)).isSome && (some (0 : Int) == (none : Option Int)) ||
        (some (0 : Int) == some (P.n : Int))) = false := by
      simp; omega
    rw [if_neg (by rw [c1]; simp)]
    simp only [Option.getD_some]
    rw [if_neg (by omega), hh, hg]
    simp only []
    rw [if_neg (by omega), hm]
    have : (⟨1, fun (i : Nat) => P.c ((0 : Int) + (i : Int) * st).toNat, P.bdry (0 : Int).toNat,
        P.bdry ((P.n : Int)).toNat⟩ : Part1) = Q := by simp [Q]
    rw [this]
    exact mk?_of_valid Q hQ
  · rw [hhi]
    have h1 := bdry_lt_succ P hv (Or.inl hn) 1 (by omega)
    have h2 : P.bdry 2 ≤ P.bdry P.n := bdry_mono_le P hv (Or.inl hn) 2 P.n hn (le_refl _)
    rw [bdry_last] at h2
    linarith

/-! ### round 5: corners of the set, n-d cell volumes -/

theorem index_lo (P : Part1) (hv : Valid P) : P.index P.lo = some 0 := by
  have hle : P.lo ≤ P.hi := le_trans hv.lo_le (le_trans (hv.c_mono (Nat.zero_le _) (by have := hv.pos; omega)) hv.le_hi)
  by_cases hn : Nondegenerate P
  · obtain ⟨k, hk, hkn, hb1, _, _⟩ := index_spec P hv (bdry_lt_succ P hv hn) P.lo (le_refl _) hle
    rw [hk]
    rcases Nat.eq_zero_or_pos k with rfl | hpos
    · rfl
    · exfalso
      have h0 := bdry_lt_succ P hv hn 0 (by omega)
      have h1 := bdry_mono_le P hv hn 1 k (by omega) (by omega)
      rw [bdry_zero P hv.pos] at h0
      linarith
  · have h1 : P.n = 1 := by unfold Nondegenerate at hn; have := hv.pos; omega
    have h2 : P.lo = P.hi := by
      have h3 : ¬ P.lo < P.hi := fun h => hn (Or.inr h)
      linarith
    exact (index_degenerate P hv h1 h2).1

theorem index_hi (P : Part1) (hv : Valid P) : P.index P.hi = some ((P.n - 1 : Nat) : Int) := by
  have hle : P.lo ≤ P.hi := le_trans hv.lo_le (le_trans (hv.c_mono (Nat.zero_le _) (by have := hv.pos; omega)) hv.le_hi)
  by_cases hn : Nondegenerate P
  · obtain ⟨k, hk, hkn, _, hb2, _⟩ := index_spec P hv (bdry_lt_succ P hv hn) P.hi hle (le_refl _)
    rw [hk]
    rcases hb2 with h | ⟨h, _⟩
    · exfalso
      have := bdry_mono_le P hv hn (k + 1) P.n (by omega) (le_refl _)
      rw [bdry_last] at this
      linarith
    · congr 2; omega
  · have h1 : P.n = 1 := by unfold Nondegenerate at hn; have := hv.pos; omega
    have h2 : P.lo = P.hi := by
      have h3 : ¬ P.lo < P.hi := fun h => hn (Or.inr h)
      linarith
    rw [← h2, h1]
    exact (index_degenerate P hv h1 h2).1

/-- `ks` are the extreme cells belonging to the corner `v` -/
def CornerCells : Part → List Rat → List Nat → Prop
  | [], [], [] => True
  | p :: P, x :: v, k :: ks => ((x = p.lo ∧ k = 0) ∨ (x = p.hi ∧ k + 1 = p.n)) ∧ CornerCells P v ks
  | _, _, _ => False

theorem setCorners_index (P : Part) (hv : ∀ p ∈ P, Valid p) (v : List Rat) (h : v ∈ setCorners P) :
    ∃ ks : List Nat, ndIndex P v = some (ks.map fun (k : Nat) => (k : Int)) ∧ CornerCells P v ks := by
  induction P generalizing v with
  | nil =>
    simp only [setCorners, List.mem_singleton] at h
    subst h
    exact ⟨[], rfl, trivial⟩
  | cons p P ih =>
    simp only [setCorners, List.mem_flatMap, List.mem_map] at h
    obtain ⟨x, hx, w, hw, rfl⟩ := h
    have hp := hv p (by simp)
    obtain ⟨ks, hks, hc⟩ := ih (fun q hq => hv q (by simp [hq])) w hw
    have hx' : x = p.lo ∨ x = p.hi := by
      split_ifs at hx with hd
      · left; simpa using hx
      · simpa using hx
    rcases hx' with rfl | rfl
    · exact ⟨0 :: ks, by simp [ndIndex, index_lo p hp, hks], Or.inl ⟨rfl, rfl⟩, hc⟩
    · refine ⟨(p.n - 1) :: ks, by simp [ndIndex, index_hi p hp, hks], Or.inr ⟨rfl, ?_⟩, hc⟩
      have := hp.pos; omega

theorem sumList_map_range (f : Nat → Rat) (n : Nat) : sumList ((List.range n).map f) = sumTo f n := by
  induction n with
  | zero => rfl
  | succ n ih =>
    rw [List.range_succ, List.map_append]
    have app : ∀ (a b : List Rat), sumList (a ++ b) = sumList a + sumList b := by
      intro a b
      induction a with
      | nil => simp [sumList]
      | cons x a iha => simp [sumList, iha]; ring
    rw [app, ih]
    simp [sumList, sumTo]

theorem sumList_append (a b : List Rat) : sumList (a ++ b) = sumList a + sumList b := by
  induction a with
  | nil => simp [sumList]
  | cons x a iha => simp [sumList, iha]; ring

theorem sumList_map_mul (x : Rat) (l : List Rat) : sumList (l.map fun w => x * w) = x * sumList l := by
  induction l with
  | nil => simp [sumList]
  | cons y l ih => simp [sumList, ih]; ring

theorem sumList_outer (xs l : List Rat) :
    sumList (xs.flatMap fun x => l.map fun w => x * w) = sumList xs * sumList l := by
  induction xs with
  | nil => simp [sumList]
  | cons x xs ih =>
    rw [List.flatMap_cons, sumList_append, ih, sumList_map_mul]
    simp [sumList]; ring

theorem ndCellVolumes_sum (P : Part) (h : ∀ p ∈ P, 1 ≤ p.n) : sumList (ndCellVolumes P) = setVolume P := by
  induction P with
  | nil => simp [ndCellVolumes, setVolume, sumList, prodList]
  | cons p P ih =>
    have hp := h p (by simp)
    simp only [ndCellVolumes, setVolume, List.map_cons, prodList]
    rw [sumList_outer, sumList_map_range, cell_sizes_sum_all p hp, ih (fun q hq => h q (by simp [hq]))]
    rfl

theorem ndCellVolumes_length (P : Part) : (ndCellVolumes P).length = ndSize P := by
  induction P with
  | nil => rfl
  | cons p rest ih =>
    simp only [ndCellVolumes, ndSize, List.length_flatMap, List.length_map, ih]
    simp [Function.comp_def]

end OdlModel.Partition
