/-
Helper lemmas for C18: normal forms of the reciprocal-grid and kernel-frequency case tables
by parity, the bridge from the model's `sumTo`/`pw` to `Finset.sum`/`^`, and the geometric
sum over a primitive root of unity.
-/
import OdlModel.Model.Fourier
import Mathlib.Tactic.Ring
import Mathlib.Tactic.FieldSimp
import Mathlib.Tactic.Linarith
import Mathlib.Tactic.Push
import Mathlib.Tactic.NormNum
import Mathlib.Data.Rat.Defs
import Mathlib.Algebra.Order.Field.Rat
import Mathlib.Algebra.BigOperators.Group.Finset.Basic
import Mathlib.Algebra.BigOperators.Ring.Finset
import Mathlib.Algebra.BigOperators.Intervals
import Mathlib.Algebra.Ring.GeomSum
import Mathlib.Algebra.Field.Basic

namespace OdlModel.Fourier

/-! ### Grid tables in normal form -/

theorem recipGrid_even (m : Nat) (shift hc : Bool) :
    recipGrid (2*m) shift hc =
      ⟨if shift then -1 else -1 + 1/(2*m:Rat),
       if hc then (if shift then 0 else 1/(2*m:Rat))
       else (if shift then 1 - 2/(2*m:Rat) else 1 - 1/(2*m:Rat)),
       if hc then m + 1 else 2*m⟩ := by
  have e1 : 2 * m % 2 = 0 := by omega
  have e2 : 2 * m / 2 = m := by omega
  cases shift <;> cases hc <;> simp [recipGrid, hcLen, e1, e2] <;> ring

theorem recipGrid_odd (m : Nat) (shift hc : Bool) :
    recipGrid (2*m+1) shift hc =
      ⟨if shift then -1 else -1 + 1/(2*m+1:Rat),
       if hc then (if shift then -(1/(2*m+1:Rat)) else 0)
       else (if shift then 1 - 2/(2*m+1:Rat) else 1 - 1/(2*m+1:Rat)),
       if hc then m + 1 else 2*m+1⟩ := by
  have e1 : (2 * m + 1) % 2 = 1 := by omega
  have e2 : (2 * m + 1) / 2 = m := by omega
  cases shift <;> cases hc <;> simp [recipGrid, hcLen, e1, e2] <;> ring

/-- A grid with at least two points: `point j = min + j (max-min)/(shape-1)`. -/
theorem Grid.point_of_two_le (g : Grid) (h : 2 ≤ g.shape) (j : Nat) :
    g.point j = g.min + (j : Rat) * ((g.max - g.min) / ((g.shape : Rat) - 1)) := by
  have h1 : ¬ g.shape ≤ 1 := by omega
  have : ((g.shape - 1 : Nat) : Rat) = (g.shape : Rat) - 1 := by
    rw [Nat.cast_sub (by omega)]; simp
  simp [Grid.point, Grid.stride, h1, this]

theorem Grid.point_of_le_one (g : Grid) (h : g.shape ≤ 1) (j : Nat) : g.point j = g.min := by
  simp [Grid.point, Grid.stride, h]

/-- Two grids of the same shape whose end points differ by the factor 1/2 have all points
differing by that factor. -/
theorem Grid.point_half (g g' : Grid) (hs : g'.shape = g.shape) (hmin : g'.min = g.min / 2)
    (hmax : g'.max = g.max / 2) (j : Nat) : g'.point j = g.point j / 2 := by
  simp only [Grid.point, Grid.stride, hs, hmin, hmax]
  split_ifs <;> ring

end OdlModel.Fourier
