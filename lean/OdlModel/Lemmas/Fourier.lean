/-
Helper lemmas for C18: normal forms of the reciprocal-grid and kernel-frequency case tables
by parity, the bridge from the model's `sumTo`/`pw` to `Finset.sum`/`^`, and the geometric
sum over a primitive root of unity.
-/
import OdlModel.Model.Fourier
import Mathlib.Tactic.Ring
import Mathlib.Tactic.LinearCombination
import Mathlib.Tactic.FieldSimp
import Mathlib.Tactic.Linarith
import Mathlib.Tactic.Push
import Mathlib.Tactic.NormNum
import Mathlib.Data.Rat.Defs
import Mathlib.Algebra.Order.Field.Rat
import Mathlib.Algebra.BigOperators.Group.Finset.Basic
import Mathlib.Algebra.BigOperators.Ring.Finset
import Mathlib.Algebra.BigOperators.Intervals
import Mathlib.Algebra.Ring.GeomSum
import Mathlib.Algebra.Field.Basic

namespace OdlModel.Fourier

/-! ### Grid tables in normal form -/

theorem recipGrid_even (m : Nat) (shift hc : Bool) :
    recipGrid (2*m) shift hc =
      ⟨if shift then -1 else -1 + 1/(2*m:Rat),
       if hc then (if shift then 0 else 1/(2*m:Rat))
       else (if shift then 1 - 2/(2*m:Rat) else 1 - 1/(2*m:Rat)),
       if hc then m + 1 else 2*m⟩ := by
  have e1 : 2 * m % 2 = 0 := by omega
  have e2 : 2 * m / 2 = m := by omega
  cases shift <;> cases hc <;> simp [recipGrid, hcLen, e1, e2] <;> ring

theorem recipGrid_odd (m : Nat) (shift hc : Bool) :
    recipGrid (2*m+1) shift hc =
      ⟨if shift then -1 else -1 + 1/(2*m+1:Rat),
       if hc then (if shift then -(1/(2*m+1:Rat)) else 0)
       else (if shift then 1 - 2/(2*m+1:Rat) else 1 - 1/(2*m+1:Rat)),
       if hc then m + 1 else 2*m+1⟩ := by
  have e1 : (2 * m + 1) % 2 = 1 := by omega
  have e2 : (2 * m + 1) / 2 = m := by omega
  cases shift <;> cases hc <;> simp [recipGrid, hcLen, e1, e2] <;> ring

/-- A grid with at least two points: `point j = min + j (max-min)/(shape-1)`. -/
theorem Grid.point_of_two_le (g : Grid) (h : 2 ≤ g.shape) (j : Nat) :
    g.point j = g.min + (j : Rat) * ((g.max - g.min) / ((g.shape : Rat) - 1)) := by
  have h1 : ¬ g.shape ≤ 1 := by omega
  have : ((g.shape - 1 : Nat) : Rat) = (g.shape : Rat) - 1 := by
    rw [Nat.cast_sub (by omega)]; simp
  simp [Grid.point, Grid.stride, h1, this]

theorem Grid.point_of_le_one (g : Grid) (h : g.shape ≤ 1) (j : Nat) : g.point j = g.min := by
  simp [Grid.point, Grid.stride, h]

/-- Two grids of the same shape whose end points differ by the factor 1/2 have all points
differing by that factor. -/
theorem Grid.point_half (g g' : Grid) (hs : g'.shape = g.shape) (hmin : g'.min = g.min / 2)
    (hmax : g'.max = g.max / 2) (j : Nat) : g'.point j = g.point j / 2 := by
  simp only [Grid.point, Grid.stride, hs, hmin, hmax]
  split_ifs <;> ring

/-! ### Sums, powers, roots of unity -/

section field
open Finset
variable {K : Type} [Field K]

theorem sumTo_eq_sum (n : Nat) (g : Nat → K) : sumTo n g = ∑ j ∈ range n, g j := by
  induction n with
  | zero => simp [sumTo]
  | succ m ih => rw [sumTo, ih, Finset.sum_range_succ]

theorem pw_eq_pow (x : K) (n : Nat) : pw x n = x ^ n := by
  induction n with
  | zero => simp [pw]
  | succ m ih => rw [pw, ih, pow_succ]

theorem dftSum_eq (w : K) (n : Nat) (f : Nat → K) (k : Nat) :
    dftSum w n f k = ∑ j ∈ range n, f j * w ^ (j * k) := by
  simp [dftSum, sumTo_eq_sum, pw_eq_pow]

/-- primitive n-th root of unity, elementary form -/
def IsPrimRoot (w : K) (n : Nat) : Prop := w ^ n = 1 ∧ ∀ d, 0 < d → d < n → w ^ d ≠ 1

theorem IsPrimRoot.ne_zero {w : K} {n : Nat} (h : IsPrimRoot w n) (hn : 0 < n) : w ≠ 0 := by
  intro h0
  have := h.1
  rw [h0, zero_pow (by omega)] at this
  exact zero_ne_one this

/-- orthogonality: Σ_j w^(j l) (w⁻¹)^(j k) = n δ_{lk} for l,k<n -/
theorem geom_orth {w : K} {n : Nat} (h : IsPrimRoot w n) (hn : 0 < n) (l k : Nat) (hl : l < n) (hk : k < n) :
    ∑ j ∈ range n, w ^ (j * l) * (w⁻¹) ^ (j * k) = if l = k then (n : K) else 0 := by
  have hw := h.ne_zero hn
  by_cases hlk : l = k
  · subst hlk
    simp only [if_true]
    have : ∀ j ∈ range n, w ^ (j * l) * (w⁻¹) ^ (j * l) = 1 := by
      intro j _
      rw [inv_pow, mul_inv_cancel₀ (pow_ne_zero _ hw)]
    rw [Finset.sum_congr rfl this]; simp
  · simp only [hlk, if_false]
    set z : K := w ^ l * (w⁻¹) ^ k with hz
    have hterm : ∀ j ∈ range n, w ^ (j * l) * (w⁻¹) ^ (j * k) = z ^ j := by
      intro j _
      rw [hz, mul_pow, ← pow_mul, ← pow_mul, mul_comm l j, mul_comm k j]
    rw [Finset.sum_congr rfl hterm]
    have hzn : z ^ n = 1 := by
      rw [hz, mul_pow, ← pow_mul, ← pow_mul, mul_comm l n, mul_comm k n, pow_mul, pow_mul, inv_pow, h.1]
      simp
    have hz1 : z ≠ 1 := by
      intro h1
      have hwk : w ^ k ≠ 0 := pow_ne_zero _ hw
      have e : w ^ l = w ^ k := by
        have := congrArg (· * w ^ k) h1
        simp only [hz, inv_pow, one_mul] at this
        rw [mul_assoc, inv_mul_cancel₀ hwk, mul_one] at this
        exact this
      rcases Nat.lt_or_gt_of_ne hlk with hlt | hgt
      · have : w ^ (k - l) = 1 := by
          have hwl : w ^ l ≠ 0 := pow_ne_zero _ hw
          have e2 : w ^ l * w ^ (k - l) = w ^ l * 1 := by
            rw [← pow_add, Nat.add_sub_cancel' hlt.le, mul_one, e]
          exact mul_left_cancel₀ hwl e2
        exact h.2 (k - l) (by omega) (by omega) this
      · have : w ^ (l - k) = 1 := by
          have e2 : w ^ k * w ^ (l - k) = w ^ k * 1 := by
            rw [← pow_add, Nat.add_sub_cancel' hgt.le, mul_one, e]
          exact mul_left_cancel₀ hwk e2
        exact h.2 (l - k) (by omega) (by omega) this
    have := geom_sum_mul z n
    rw [hzn, sub_self] at this
    rcases mul_eq_zero.mp this with h0 | h0
    · exact h0
    · exact absurd (sub_eq_zero.mp h0) hz1


theorem IsPrimRoot.inv {w : K} {n : Nat} (h : IsPrimRoot w n) : IsPrimRoot w⁻¹ n := by
  refine ⟨by rw [inv_pow, h.1, inv_one], ?_⟩
  intro d hd hdn hc
  apply h.2 d hd hdn
  rw [inv_pow] at hc
  exact inv_eq_one.mp hc

/-- The double sum collapses: `Σ_j (Σ_l f l w^(l j)) (w⁻¹)^(j k) = n f k`. -/
theorem dft_core {w : K} {n : Nat} (h : IsPrimRoot w n) (hn : 0 < n) (f : Nat → K) (k : Nat)
    (hk : k < n) :
    ∑ j ∈ range n, (∑ l ∈ range n, f l * w ^ (l * j)) * (w⁻¹) ^ (j * k) = (n : K) * f k := by
  have : ∀ j ∈ range n, (∑ l ∈ range n, f l * w ^ (l * j)) * (w⁻¹) ^ (j * k)
      = ∑ l ∈ range n, f l * (w ^ (j * l) * (w⁻¹) ^ (j * k)) := by
    intro j _
    rw [Finset.sum_mul]
    apply Finset.sum_congr rfl
    intro l _
    rw [mul_comm l j]; ring
  rw [Finset.sum_congr rfl this, Finset.sum_comm]
  have : ∀ l ∈ range n, ∑ j ∈ range n, f l * (w ^ (j * l) * (w⁻¹) ^ (j * k))
      = f l * (if l = k then (n : K) else 0) := by
    intro l hl
    rw [← Finset.mul_sum, geom_orth h hn l k (Finset.mem_range.mp hl) hk]
  rw [Finset.sum_congr rfl this]
  simp [Finset.sum_ite_eq', hk, mul_comm]

end field

end OdlModel.Fourier
