/-
Helper lemmas for C19 (geometries): orthonormal matrices preserve inner products.
-/
import OdlModel.Model.Geometry
import Mathlib.Tactic.Ring
import Mathlib.Tactic.LinearCombination

namespace OdlModel.Geometry
variable {K : Type} [CommRing K]

theorem M2.dot_mulVec (R : M2 K) (h : R.transpose.mul R = M2.one) (u v : V2 K) :
    V2.dot (R.mulVec u) (R.mulVec v) = V2.dot u v := by
  obtain ⟨a, b, c, d⟩ := R
  obtain ⟨ux, uy⟩ := u
  obtain ⟨vx, vy⟩ := v
  have h11 := congrArg M2.a11 h
  have h12 := congrArg M2.a12 h
  have h21 := congrArg M2.a21 h
  have h22 := congrArg M2.a22 h
  simp only [M2.transpose, M2.mul, M2.one] at h11 h12 h21 h22
  simp only [V2.dot, M2.mulVec]
  linear_combination (ux * vx) * h11 + (ux * vy) * h12 + (uy * vx) * h21 + (uy * vy) * h22

theorem M3.dot_mulVec (R : M3 K) (h : R.transpose.mul R = M3.one) (u v : V3 K) :
    V3.dot (R.mulVec u) (R.mulVec v) = V3.dot u v := by
  obtain ⟨a11, a12, a13, a21, a22, a23, a31, a32, a33⟩ := R
  obtain ⟨ux, uy, uz⟩ := u
  obtain ⟨vx, vy, vz⟩ := v
  have h11 := congrArg M3.a11 h
  have h12 := congrArg M3.a12 h
  have h13 := congrArg M3.a13 h
  have h21 := congrArg M3.a21 h
  have h22 := congrArg M3.a22 h
  have h23 := congrArg M3.a23 h
  have h31 := congrArg M3.a31 h
  have h32 := congrArg M3.a32 h
  have h33 := congrArg M3.a33 h
  simp only [M3.transpose, M3.mul, M3.one] at h11 h12 h13 h21 h22 h23 h31 h32 h33
  simp only [V3.dot, M3.mulVec]
  linear_combination (ux * vx) * h11 + (ux * vy) * h12 + (ux * vz) * h13 + (uy * vx) * h21 +
    (uy * vy) * h22 + (uy * vz) * h23 + (uz * vx) * h31 + (uz * vy) * h32 + (uz * vz) * h33

theorem M2.normSq_mulVec (R : M2 K) (h : R.transpose.mul R = M2.one) (u : V2 K) :
    V2.normSq (R.mulVec u) = V2.normSq u := M2.dot_mulVec R h u u

theorem M3.normSq_mulVec (R : M3 K) (h : R.transpose.mul R = M3.one) (u : V3 K) :
    V3.normSq (R.mulVec u) = V3.normSq u := M3.dot_mulVec R h u u

theorem M3.mul_mulVec (A B : M3 K) (v : V3 K) : (A.mul B).mulVec v = A.mulVec (B.mulVec v) := by
  ext <;> simp only [M3.mul, M3.mulVec] <;> ring

/-- Rodrigues' matrix is covariant under rotations: `R(Qa, θ)·Q = Q·R(a, θ)` for `Q ∈ SO(3)`. -/
theorem axisRot_conj (Q : M3 K) (hQ : Q.transpose.mul Q = M3.one) (hd : Q.det = 1)
    (a : V3 K) (c s : K) :
    (axisRot (Q.mulVec a) c s).mul Q = Q.mul (axisRot a c s) := by
  obtain ⟨q11, q12, q13, q21, q22, q23, q31, q32, q33⟩ := Q
  obtain ⟨x, y, z⟩ := a
  have h11 := congrArg M3.a11 hQ
  have h12 := congrArg M3.a12 hQ
  have h13 := congrArg M3.a13 hQ
  have h22 := congrArg M3.a22 hQ
  have h23 := congrArg M3.a23 hQ
  have h33 := congrArg M3.a33 hQ
  simp only [M3.transpose, M3.mul, M3.one] at h11 h12 h13 h22 h23 h33
  simp only [M3.det] at hd
  ext <;> simp only [axisRot, M3.mulVec, M3.mul] <;> grind

theorem M3.mulVec_neg (Q : M3 K) (u : V3 K) : V3.neg (Q.mulVec u) = Q.mulVec (V3.neg u) := by
  ext <;> simp only [V3.neg, M3.mulVec] <;> ring

/-- The cross product is covariant under rotations (`det Q = 1`). -/
theorem cross_mulVec (Q : M3 K) (hQ : Q.transpose.mul Q = M3.one) (hd : Q.det = 1) (u v : V3 K) :
    V3.cross (Q.mulVec u) (Q.mulVec v) = Q.mulVec (V3.cross u v) := by
  obtain ⟨q11, q12, q13, q21, q22, q23, q31, q32, q33⟩ := Q
  obtain ⟨a, b, c⟩ := u
  obtain ⟨x, y, z⟩ := v
  have h11 := congrArg M3.a11 hQ
  have h12 := congrArg M3.a12 hQ
  have h13 := congrArg M3.a13 hQ
  have h22 := congrArg M3.a22 hQ
  have h23 := congrArg M3.a23 hQ
  have h33 := congrArg M3.a33 hQ
  simp only [M3.transpose, M3.mul, M3.one] at h11 h12 h13 h22 h23 h33
  simp only [M3.det] at hd
  ext <;> simp only [V3.cross, M3.mulVec] <;> grind

/-- the intrinsic rotation of the curved detectors is covariant under rotations of the axes -/
theorem curvedRot_cov (Q : M3 K) (hQ : Q.transpose.mul Q = M3.one)
    (hd : Q.det = 1) (a0 a1 : V3 K) (w : V3 K) :
    (curvedRot (Q.mulVec a0) (Q.mulVec a1)).mulVec w = Q.mulVec ((curvedRot a0 a1).mulVec w) := by
  have hc := cross_mulVec Q hQ hd a1 a0
  have e : ∀ (p q r : V3 K), (M3.ofCols p q r).mulVec w
      = V3.add (V3.smul w.x p) (V3.add (V3.smul w.y q) (V3.smul w.z r)) := by
    intro p q r; ext <;> simp only [M3.ofCols, M3.mulVec, V3.add, V3.smul] <;> ring
  simp only [curvedRot, e, hc, M3.mulVec_neg]
  ext <;> simp only [V3.add, V3.smul, V3.neg, M3.mulVec] <;> ring

/-- `det (c·I + k·w wᵀ + [w]×) = (c² + |w|²)(c + k|w|²)` -/
theorem det_rodrigues_form (cc k p q r : K) :
    (M3.mk (cc + k * (p * p)) (k * (p * q) - r) (k * (p * r) + q)
           (k * (q * p) + r) (cc + k * (q * q)) (k * (q * r) - p)
           (k * (r * p) - q) (k * (r * q) + p) (cc + k * (r * r))).det
      = (cc * cc + (p * p + q * q + r * r)) * (cc + k * (p * p + q * q + r * r)) := by
  simp only [M3.det]; ring

/-! ### NumPy broadcasting of shapes -/

theorem bcastDim_one_left (b : Nat) : bcastDim 1 b = some b := by
  unfold bcastDim; split_ifs <;> simp_all
theorem bcastDim_one_right (a : Nat) : bcastDim a 1 = some a := by
  unfold bcastDim; split_ifs <;> simp_all
theorem bcastRev_nil_left (l : List Nat) : bcastRev [] l = some l := by
  cases l <;> rfl
theorem bcastRev_nil_right (l : List Nat) : bcastRev l [] = some l := by
  cases l <;> rfl
theorem bcastRev_one_left {l : List Nat} (h : l ≠ []) : bcastRev [1] l = some l := by
  cases l with
  | nil => exact absurd rfl h
  | cons b bs => simp [bcastRev, bcastDim_one_left]
theorem bcastRev_one_right {l : List Nat} (h : l ≠ []) : bcastRev l [1] = some l := by
  cases l with
  | nil => exact absurd rfl h
  | cons b bs => simp [bcastRev, bcastDim_one_right, bcastRev_nil_right]
theorem bcastRev_ne_nil {l m u : List Nat} (h : l ≠ []) (e : bcastRev l m = some u) : u ≠ [] := by
  cases l with
  | nil => exact absurd rfl h
  | cons a as =>
    cases m with
    | nil => simp [bcastRev] at e; subst e; simp
    | cons b bs =>
      simp only [bcastRev] at e
      split at e
      · simp at e; subst e; simp
      · simp at e

theorem bcast_nil_left (s : List Nat) : bcast [] s = some s := by
  simp [bcast, bcastRev_nil_left]
theorem bcast_nil_right (s : List Nat) : bcast s [] = some s := by
  simp [bcast, bcastRev_nil_right]
theorem bcast_one_left {s : List Nat} (h : s ≠ []) : bcast [1] s = some s := by
  have : s.reverse ≠ [] := by simpa using h
  simp [bcast, bcastRev_one_left this]
theorem bcast_one_right {s : List Nat} (h : s ≠ []) : bcast s [1] = some s := by
  have : s.reverse ≠ [] := by simpa using h
  simp [bcast, bcastRev_one_right this]
theorem bcast_ne_nil {s t u : List Nat} (h : s ≠ []) (e : bcast s t = some u) : u ≠ [] := by
  have hs : s.reverse ≠ [] := by simpa using h
  simp only [bcast, Option.map_eq_some_iff] at e
  obtain ⟨w, hw, rfl⟩ := e
  have := bcastRev_ne_nil hs hw
  simpa using this

/-- `some [] ↦ some [1]`, everything else unchanged -/
def norm1 : Option (List Nat) → Option (List Nat)
  | some [] => some [1]
  | r => r

theorem norm1_some {s : List Nat} : norm1 (some s) = some (atLeast1 s) := by
  cases s <;> simp [norm1, atLeast1]

theorem bcastAll_atLeast1 {ms : List (List Nat)} (h : ms ≠ []) :
    bcastAll (ms.map atLeast1) = norm1 (bcastAll ms) := by
  induction ms with
  | nil => exact absurd rfl h
  | cons s r ih =>
    by_cases hr : r = []
    · subst hr
      simp [bcastAll, bcast_nil_right, norm1_some]
    · have ih := ih hr
      simp only [List.map_cons, bcastAll, ih]
      cases hb : bcastAll r with
      | none => simp [norm1]
      | some t =>
        by_cases ht : t = []
        · subst ht
          by_cases hs : s = []
          · subst hs; simp [norm1, atLeast1, bcast_nil_left]; rfl
          · simp [norm1, atLeast1, hs, bcast_one_right hs, bcast_nil_right]
        · have e1 : norm1 (some t) = some t := by cases t <;> simp_all [norm1]
          rw [e1]
          by_cases hs : s = []
          · subst hs; simp [atLeast1, bcast_one_left ht, bcast_nil_left, e1]
          · simp only [atLeast1, hs, List.isEmpty_iff, if_false]
            cases hst : bcast s t with
            | none => simp [norm1]
            | some u =>
              have := bcast_ne_nil hs hst
              cases u <;> simp_all [norm1]

end OdlModel.Geometry
