/-
C05 (round 4): lifting a transposed pair of 1-d maps to one axis of an n-d tensor, and
`finite_diff` (C13 model) commuting with conjugation.
-/
import OdlModel.Model.AdjointFD
import OdlModel.Lemmas.Adjoint
import OdlModel.Lemmas.FiniteDiff

namespace OdlModel.Adjoint
open Finset OdlModel.FiniteDiff OdlModel.Gen.FiniteDiff

variable {K : Type} [Field K]

/-- the action of an axis-lifted map at the output position `(u, i, v)` -/
theorem axisRun_at [DecidableEq K] (n m q : Nat) (A : (Nat → K) → Nat → K) (x : El K) (j u i v : Nat)
    (hi : i < m) (hv : v < q) :
    axisRun n m q A x j (u * (m * q) + (i * q + v)) =
      A (fun k => x 0 (u * (n * q) + (k * q + v))) i := by
  obtain ⟨e1, e2, e3⟩ := idx3 u i v m q hi hv
  simp only [axisRun, e1, e2, e3]
  congr 1
  funext k
  congr 1; ring

/-- lifting a transposed pair of 1-d maps to the middle axis of `(p, ·, q)` tensors -/
theorem axis_dot [DecidableEq K] (p n m q : Nat) (A B : (Nat → K) → Nat → K)
    (h : ∀ f g : Nat → K, ∑ i ∈ range m, g i * A f i = ∑ k ∈ range n, f k * B g k)
    (c : K) (x y : El K) :
    ∑ o ∈ range (p * (m * q)), c * axisRun n m q A x 0 o * y 0 o =
      ∑ o ∈ range (p * (n * q)), c * x 0 o * axisRun m n q B y 0 o := by
  rw [sum_range_mul, sum_range_mul]
  refine sum_congr rfl fun u _ => ?_
  rw [sum_range_mul, sum_range_mul, sum_comm]
  conv_rhs => rw [sum_comm]
  refine sum_congr rfl fun v hv => ?_
  have hv' := mem_range.mp hv
  have L : ∀ i ∈ range m, c * axisRun n m q A x 0 (u * (m * q) + (i * q + v)) *
      y 0 (u * (m * q) + (i * q + v)) =
      c * ((fun i => y 0 (u * (m * q) + (i * q + v))) i *
        A (fun k => x 0 (u * (n * q) + (k * q + v))) i) := by
    intro i hi
    rw [axisRun_at n m q A x 0 u i v (mem_range.mp hi) hv']; ring
  have R : ∀ k ∈ range n, c * x 0 (u * (n * q) + (k * q + v)) *
      axisRun m n q B y 0 (u * (n * q) + (k * q + v)) =
      c * ((fun k => x 0 (u * (n * q) + (k * q + v))) k *
        B (fun i => y 0 (u * (m * q) + (i * q + v))) k) := by
    intro k hk
    rw [axisRun_at m n q B y 0 u k v (mem_range.mp hk) hv']; ring
  rw [sum_congr rfl L, sum_congr rfl R, ← mul_sum, ← mul_sum, h]

/-- `finite_diff` has rational coefficients: it commutes with every ring involution. -/
theorem evalTerms_conj (cj : K →+* K) (n : Nat) (c : K) (f : Nat → K) (ts : List Term) :
    cj (evalTerms n c f ts) = evalTerms n (cj c) (fun k => cj (f k)) ts := by
  induction ts with
  | nil => simp [evalTerms]
  | cons t ts ih =>
    simp only [evalTerms, evalTerm, map_add, map_mul, map_intCast, ih]
    cases t.src <;> rfl

theorem fd_conj (cj : K →+* K) (t : Table) (n : Nat) (hn : 2 ≤ n) (dx : K) (f : Nat → K) (i : Nat) :
    cj (fd den t n 0 dx f i) = fd den t n 0 (cj dx) (fun k => cj (f k)) i := by
  have hacc : ∀ (accs : List Acc), cj (accSum n 0 f accs i) =
      accSum n 0 (fun k => cj (f k)) accs i := by
    intro accs
    induction accs with
    | nil => simp [accSum]
    | cons a as ih =>
      simp only [accSum, map_add, ih, apply_ite cj, evalTerms_conj, map_zero]
  simp only [fd, map_div₀, map_mul, map_natCast, fdNum_closed t n hn, map_add, hacc,
    apply_ite cj, evalTerms_conj, map_zero, interior]
  congr 2
  split_ifs <;> simp [map_intCast]

end OdlModel.Adjoint

/-! ### Gradient / Divergence as block column / row of partial derivatives -/

namespace OdlModel.Adjoint
open Finset OdlModel.FiniteDiff OdlModel.Gen.FiniteDiff

theorem shProd_split : ∀ (sh : List Nat) (a : Nat), a < sh.length →
    shProd sh = shProd (sh.take a) * (sh.getD a 0 * shProd (sh.drop (a + 1)))
  | [], a, h => by simp at h
  | n :: sh, 0, _ => by simp [shProd]
  | n :: sh, a + 1, h => by
    have ih := shProd_split sh a (by simpa using h)
    simp only [List.take_succ_cons, shProd, List.getD_cons_succ, List.drop_succ_cons]
    rw [ih]; ring

section
variable {K : Type} [Field K] [DecidableEq K]

theorem gradTree_shape (S V : Space K) (sh : List Nat) (me : Method) (pa : Pad)
    (dx : Nat → K) (d : Nat) :
    (gradTree S V sh me pa dx d).dom = S ∧ (gradTree S V sh me pa dx d).ran = V ∧
      (gradTree S V sh me pa dx d).isBlock = true := by
  induction d with
  | zero => exact ⟨rfl, rfl, rfl⟩
  | succ a ih => exact ⟨ih.1, ih.2.1, rfl⟩

theorem divTree_shape (V S : Space K) (sh : List Nat) (me : Method) (pa : Pad)
    (dx : Nat → K) (d : Nat) :
    (divTree V S sh me pa dx d).dom = V ∧ (divTree V S sh me pa dx d).ran = S ∧
      (divTree V S sh me pa dx d).isBlock = true := by
  induction d with
  | zero => exact ⟨rfl, rfl, rfl⟩
  | succ a ih => exact ⟨ih.1, ih.2.1, rfl⟩
end

end OdlModel.Adjoint
