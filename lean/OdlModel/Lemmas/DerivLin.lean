/-
C06 (round 5): a linear point-wise operator of `Model/DerivLin.lean` is its own derivative (over `ℝ`).
-/
import OdlModel.Lemmas.DerivLeaves
import OdlModel.Model.DerivLin
namespace OdlModel.Deriv

theorem lin_hasDerivAt_line (j : Lin ℝ) (x d : Vec ℝ) (k : Nat) :
    HasDerivAt (fun s : ℝ => j.run (fun m => x m + s * d m) k) ((j.deriv x).run d k) 0 := by
  have e : (fun s : ℝ => j.run (fun m => x m + s * d m) k)
      = fun s : ℝ => j.run x k + s * j.run d k := by
    funext s
    have h := lin_linear j s d x k
    have e1 : (fun m => x m + s * d m) = fun t => s * d t + x t := by funext m; ring
    rw [e1, h]; ring
  rw [e]
  simpa [Lin.deriv] using ((hasDerivAt_id (0 : ℝ)).mul_const (j.run d k)).const_add (j.run x k)

end OdlModel.Deriv
