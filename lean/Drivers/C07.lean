import OdlModel.Common
import OdlModel.Model.Prox
open OdlModel OdlModel.Prox

/-- Rational square root: exact when the argument is the square of a rational, otherwise
accurate to a relative 2^-64 (the general stream is compared with a tolerance). -/
def ratSqrt (r : Rat) : Rat :=
  if r ≤ 0 then 0 else
  let k : Nat := 64
  let n := r.num.toNat * r.den * 4 ^ k
  mkRat (Nat.sqrt n) (r.den * 2 ^ k)

def optList (s : String) : Option (Option (List Rat)) :=
  if s = "~" then some none else (parseRatList s).map some

/-- Prefix (Polish) encoding of a functional tree, tokens separated by `|`. -/
def parseFn : Nat → List String → Option (Fn Rat × List String)
  | 0, _ => none
  | fuel + 1, toks =>
    match toks with
    | "l1" :: lam :: g :: r => do some (.l1 (← parseRat lam) (← optList g), r)
    | "l1l2" :: pw :: d :: lam :: g :: r => do
        some (.l1l2 (← parseRatList pw) (← d.toNat?) (← parseRat lam) (← optList g), r)
    | "l2" :: lam :: g :: r => do some (.l2 (← parseRat lam) (← optList g), r)
    | "l2sq" :: lam :: g :: r => do some (.l2sq (← parseRat lam) (← optList g), r)
    | "ccl1" :: lam :: g :: r => do some (.ccl1 (← parseRat lam) (← optList g), r)
    | "ccl1l2" :: pw :: d :: lam :: g :: r => do
        some (.ccl1l2 (← parseRatList pw) (← d.toNat?) (← parseRat lam) (← optList g), r)
    | "ccl2sq" :: lam :: g :: r => do some (.ccl2sq (← parseRat lam) (← optList g), r)
    | "box" :: lo :: hi :: r => do some (.box (← optList lo) (← optList hi), r)
    | "const" :: r => some (.const, r)
    | "izero" :: r => some (.izero, r)
    | "linf" :: cw :: r => do some (.linf (← parseRat cw), r)
    | "cclinf" :: cw :: r => do some (.cclinf (← parseRat cw), r)
    | "simplex" :: a :: d :: r => do some (.simplex (a == "1") (← parseRat d), r)
    | "sumc" :: a :: s :: r => do some (.sumc (a == "1") (← parseRat s), r)
    | "huber" :: g :: r => do some (.huber (← parseRat g), r)
    | "huberg" :: pw :: d :: g :: r => do
        some (.huberG (← parseRatList pw) (← d.toNat?) (← parseRat g), r)
    | "comp" :: mu :: m :: r => do
        let mu ← parseRat mu
        let m ← parseRatMat m
        let (f, r') ← parseFn fuel r
        some (.comp f m mu, r')
    | "klcc" :: lam :: g :: r => do some (.klcc (← parseRat lam) (← optList g), r)
    | "trans" :: y :: r => do
        let y ← parseRatList y
        let (f, r') ← parseFn fuel r
        some (.trans f y, r')
    | "argscale" :: s :: r => do
        let s ← parseRat s
        let (f, r') ← parseFn fuel r
        some (.argScale f s, r')
    | "lscale" :: s :: r => do
        let s ← parseRat s
        let (f, r') ← parseFn fuel r
        some (.leftScale f s, r')
    | "quad" :: a :: u :: r => do
        let a ← parseRat a
        let u ← optList u
        let (f, r') ← parseFn fuel r
        some (.quad f a u, r')
    | "conj" :: r => do
        let (f, r') ← parseFn fuel r
        some (.conj f, r')
    | "sep" :: n :: r => do
        let n ← n.toNat?
        let (f, r1) ← parseFn fuel r
        let (g, r2) ← parseFn fuel r1
        some (.sep n f g, r2)
    | "nil" :: r => some (.nil, r)
    | _ => none

/-- `prox f=<tree> w=<weights> sk=s|v sig=<step(s)> eps=<fudge> x=<point>`
answers `ok p=<proximal point>` or `unsupported`. -/
def doProx (l : Line) : Option String := do
  let ftxt ← l.get? "f"
  let toks := ftxt.splitOn "|"
  let (f, rest) ← parseFn (toks.length + 1) toks
  guard rest.isEmpty
  let w ← l.rats? "w"
  let x ← l.rats? "x"
  let eps ← l.rat? "eps"
  let sv ← l.rats? "sig"
  let sk ← l.get? "sk"
  let sig : Sig Rat ← match sk, sv with
    | "s", [s] => some (Sig.sc s)
    | "v", v => some (Sig.vec v)
    | _, _ => none
  if w.length ≠ x.length then none
  else if !f.ok sig x.length then some "unsupported"
  else if let some e := f.err then some e
  else
    let E : Env Rat := { sqrt := ratSqrt, eps := eps }
    some s!"ok p={showRatList (f.prox E w sig x)}"

/-- `simplex r=<diameter> x=<point> [w=<array weights>]` answers the threshold, the projection
and the exact feasibility residual `sum(p) - r` (the hypothesis of the KKT theorems). -/
def doSimplex (l : Line) : Option String := do
  let r ← l.rat? "r"
  let x ← l.rats? "x"
  match l.rats? "w" with
  | some w =>
    match simplexTauW r w x with
    | none => some "err:empty"
    | some tau =>
      let p := List.zipWith (fun wi xi => maxK (xi - tau / wi) 0) w x
      some s!"ok tau={showRat tau} resid={showRat (sumK p - r)} p={showRatList p}"
  | none =>
    match simplexTau r x with
    | none => some "err:empty"
    | some tau =>
      let p := x.map fun xi => maxK (xi - tau) 0
      some s!"ok tau={showRat tau} resid={showRat (sumK p - r)} p={showRatList p}"

/-- Is `r ≥ 0` the square of a rational (the hypothesis "the point-wise norm exists in the
field" of the group theorems)? -/
def isRatSquare (r : Rat) : Bool := let q := ratSqrt r; q * q == r

/-- `gobj kind=l1l2|huberg pw=<product weights> d=<components> par=<lam | gamma> g=<data|~>
b=<base-space weights> s=<step> x=<point> z=<probe>`: the model proximal point `p` of `x`, the
objective `groupObj` at `z` and at `p`, the gap `obj(z) − obj(p) − ‖z − p‖²/(2σ)` (non-negative
by `C07.l1l2_groupObj_minimises` / `C07.huberG_groupObj_minimises`) and whether every point-wise
norm involved was an exact rational square (`sq=1`: all values exact). -/
def doGobj (l : Line) : Option String := do
  let kind ← l.get? "kind"
  let pw ← l.rats? "pw"
  let d ← l.nat? "d"
  let par ← l.rat? "par"
  let g ← optList (← l.get? "g")
  let b ← l.rats? "b"
  let s ← l.rat? "s"
  let x ← l.rats? "x"
  let z ← l.rats? "z"
  if d = 0 ∨ x.length % d ≠ 0 ∨ z.length ≠ x.length ∨ pw.length ≠ d ∨ b.length * d ≠ x.length
      ∨ s ≤ 0 then none
  else
    let m := x.length / d
    let E : Env Rat := { sqrt := ratSqrt, eps := 0 }
    let (f, phi, g') ← (match kind with
      | "l1l2" => some (Fn.l1l2 pw d par g, fun t => par * t, g)
      | "huberg" => if g.isSome then none else some (Fn.huberG pw d par, huberValK par, none)
      | _ => none : Option (Fn Rat × (Rat → Rat) × Option (List Rat)))
    if !f.ok (.sc s) x.length then some "unsupported"
    else
      let p := f.prox E (x.map fun _ => 1) (.sc s) x
      let fz := groupObj ratSqrt phi pw d m b g' s x z
      let fp := groupObj ratSqrt phi pw d m b g' s x p
      let q := groupObj ratSqrt (fun _ => 0) pw d m b none s p z
      let sqs (v : List Rat) : Bool := (List.range m).all fun i =>
        isRatSquare (sumK ((List.range d).map fun k =>
          let e := v.getD (k * m + i) 0 - gAt g' (k * m + i); pw.getD k 1 * (e * e)))
      let sq := sqs x && sqs z && sqs p
      some s!"ok sq={if sq then 1 else 0} fz={showRat fz} fp={showRat fp} gap={showRat (fz - fp - q)} p={showRatList p}"

def handle (l : Line) : Option String :=
  match l.op with
  | "prox" => doProx l
  | "simplex" => doSimplex l
  | "gobj" => doGobj l
  | _ => none

def main : IO Unit := driverLoop handle
