import OdlModel.Common
import OdlModel.Model.Deriv
import OdlModel.Model.DerivLeaves
import OdlModel.Model.DerivLeafComp
import OdlModel.Model.DerivLin
import OdlModel.Model.DerivUfuncComp
import OdlModel.Gen.UfuncDeriv
open OdlModel OdlModel.Deriv

/-! Driver for C06.  One case per line:

`deriv t=<tree> x=<vec> d=<vec>`

The tree is in Polish notation, tokens separated by `|` (see `parseTree`).  Answer:
`ok lin=B dom=N ran=N fld=B val=<op(x)> dlin=B ddom=N dran=N dfld=B dval=<op.derivative(x)(d)>`,
`err:wf` (a constructor of the real code raises) or `err:deriv` (`derivative` raises). -/

abbrev T := Impl Rat

def vecOf (l : List Rat) : Vec Rat :=
  let a := l.toArray
  fun k => a.getD k 0

def matOf (rows : List (List Rat)) : Nat → Nat → Rat :=
  let a := (rows.map List.toArray).toArray
  fun i j => (a.getD i #[]).getD j 0

def optNat (s : String) : Option (Option Nat) :=
  if s = "-" then some none else s.toNat?.map some

/-- Recursive-descent parser over the token list; returns the tree and the remaining tokens. -/
partial def parseTree : List String → Option (T × List String)
  | "id" :: n :: r => do pure (.identity (← n.toNat?), r)
  | "scal" :: n :: s :: r => do pure (.scaling (← n.toNat?) (← parseRat s), r)
  | "mul" :: n :: v :: r => do pure (.multiply (← n.toNat?) (vecOf (← parseRatList v)), r)
  | "mat" :: m :: n :: a :: r => do
      pure (.matrix (← m.toNat?) (← n.toNat?) (matOf (← parseRatMat a)), r)
  | "zero" :: n :: m :: r => do pure (.zero (← n.toNat?) (← m.toNat?), r)
  | "const" :: n :: m :: c :: r => do
      pure (.const (← n.toNat?) (← m.toNat?) (vecOf (← parseRatList c)), r)
  | "pow" :: n :: p :: r => do pure (.power (← n.toNat?) (← p.toNat?), r)
  | "inner" :: n :: v :: r => do pure (.inner (← n.toNat?) (vecOf (← parseRatList v)), r)
  | "normsq" :: n :: r => do pure (.normsq (← n.toNat?), r)
  | "sum" :: tr :: td :: r => do
      let tr ← optNat tr; let td ← optNat td
      let (a, r) ← parseTree r; let (b, r) ← parseTree r
      pure (.sum a b tr td, r)
  | "vecsum" :: v :: r => do
      let v ← parseRatList v
      let (a, r) ← parseTree r
      pure (.vecsum a (vecOf v), r)
  | "comp" :: tmp :: r => do
      let tmp ← optNat tmp
      let (a, r) ← parseTree r; let (b, r) ← parseTree r
      pure (.comp a b tmp, r)
  | "lscal" :: s :: r => do
      let s ← parseRat s
      let (a, r) ← parseTree r
      pure (.lscal a s, r)
  | "rscal" :: s :: r => do
      let s ← parseRat s
      let (a, r) ← parseTree r
      pure (.rscal a s, r)
  | "lvec" :: v :: r => do
      let v ← parseRatList v
      let (a, r) ← parseTree r
      pure (.lvec a (vecOf v), r)
  | "rvec" :: v :: r => do
      let v ← parseRatList v
      let (a, r) ← parseTree r
      pure (.rvec a (vecOf v), r)
  | "pprod" :: r => do
      let (a, r) ← parseTree r; let (b, r) ← parseTree r
      pure (.pprod a b, r)
  | "flvec" :: m :: v :: r => do
      let m ← m.toNat?; let v ← parseRatList v
      let (a, r) ← parseTree r
      pure (.flvec a m (vecOf v), r)
  | "bnil" :: n :: r => do pure (.bnil (← n.toNat?), r)
  | "bcons" :: r => do
      let (a, r) ← parseTree r; let (b, r) ← parseTree r
      pure (.bcons a b, r)
  | "rnil" :: m :: r => do pure (.rnil (← m.toNat?), r)
  | "rcons" :: r => do
      let (a, r) ← parseTree r; let (b, r) ← parseTree r
      pure (.rcons a b, r)
  | "psnil" :: n :: m :: r => do pure (.psnil (← n.toNat?) (← m.toNat?), r)
  | "pscons" :: ro :: co :: r => do
      let ro ← ro.toNat?; let co ← co.toNat?
      let (a, r) ← parseTree r; let (b, r) ← parseTree r
      pure (.pscons ro co a b, r)
  | "cmodsq" :: n :: r => do pure (.cmodsq (← n.toNat?), r)
  | "realpart" :: n :: r => do pure (.realpart (← n.toNat?), r)
  | "imagpart" :: n :: r => do pure (.imagpart (← n.toNat?), r)
  | "cembed" :: n :: a :: b :: r => do
      pure (.cembed (← n.toNat?) (← parseRat a) (← parseRat b), r)
  | "clscal" :: n :: a :: b :: r => do
      let n ← n.toNat?; let a ← parseRat a; let b ← parseRat b
      let (o, r) ← parseTree r
      pure (.clscal n o a b (-b), r)
  | "crscal" :: n :: a :: b :: r => do
      let n ← n.toNat?; let a ← parseRat a; let b ← parseRat b
      let (o, r) ← parseTree r
      pure (.crscal n o a b (-b), r)
  | "dnil" :: r => pure (.dnil, r)
  | "dcons" :: r => do
      let (a, r) ← parseTree r; let (b, r) ← parseTree r
      pure (.dcons a b, r)
  | _ => none

def b01 (b : Bool) : String := if b then "1" else "0"

def dump (i : T) (x : Vec Rat) : String :=
  showRatList ((List.range i.ran).map (i.run x))

def doDeriv (l : Line) : Option String := do
  let t ← l.get? "t"
  let (i, rest) ← parseTree (t.splitOn "|")
  if !rest.isEmpty then none
  let xs ← l.rats? "x"
  let ds ← l.rats? "d"
  if xs.length ≠ i.dom || ds.length ≠ i.dom then none
  let x := vecOf xs
  let d := vecOf ds
  if !i.wf || !i.cwf then return "err:wf"
  let head := s!"lin={b01 i.isLinear} dom={i.dom} ran={i.ran} fld={b01 i.ranField} val={dump i x}"
  match i.deriv x with
  | none => some s!"err:deriv {head}"
  | some j =>
    -- `derivative(x).derivative(d)(d)`: the second derivative call (C06.deriv_deriv)
    let d2 := match j.deriv d with
      | some j2 => dump j2 d
      | none => "err"
    some s!"ok {head} dlin={b01 j.isLinear} ddom={j.dom} dran={j.ran} dfld={b01 j.ranField} dval={dump j d} d2val={d2}"

/-- Exact rational value of a finite `Float`. -/
def floatRat (x : Float) : Option Rat :=
  if !x.isFinite then none
  else
    let (m, e) := x.frExp            -- x = m * 2^e, 1/2 ≤ |m| < 1
    let mant : Int := (m.scaleB 53).toInt64.toInt   -- exact: 53-bit mantissa
    let ex : Int := e - 53
    if ex ≥ 0 then some ((mant * (2 : Int) ^ ex.toNat : Int) : Rat)
    else some (mkRat mant (2 ^ (-ex).toNat))

def ratFloat (r : Rat) : Float := Float.ofInt r.num / Float.ofNat r.den

/-- `ufunc tbl=deriv|grad name=<ufunc> t=<rat>`: the GENERATED table entry evaluated at `Float`:
`ok f=<value of the ufunc at t> d=<value of the table expression at t>` (exact rationals of the
doubles), `err:nan` if not finite. -/
def doUfunc (l : Line) : Option String := do
  let tbl ← l.get? "tbl"
  let name ← l.get? "name"
  let f ← OdlModel.UfuncDeriv.Fn.ofName? name
  let t ← l.rat? "t"
  let table ← match tbl with
    | "deriv" => some OdlModel.Gen.UfuncDeriv.table
    | "grad" => some OdlModel.Gen.UfuncDeriv.gradTable
    | _ => none
  let (_, e) ← table.find? (fun p => p.1 = f)
  let tf := ratFloat t
  match floatRat (f.float tf), floatRat (e.evalF f tf) with
  | some a, some b => some s!"ok f={showRat a} d={showRat b}"
  | _, _ => some "err:nan"


/-! Norm-type leaves at `Float` (round 4):

`leaf t=<leaf> x=<vec> d=<vec>` with `<leaf>` one of `norm|n`, `dist|n|<y>`, `l2norm|n`, `cmod|n`,
`pwnorm|m|n`.  All numbers are exact rationals of doubles.  Answer:
`ok dom=N ran=N val=<op(x)> ddom=N dran=N dvec=<vector held by derivative(x)> dval=<derivative(x)(d)>`,
`err:deriv dom=N ran=N val=<op(x)>` (`derivative` raises) or `err:wf` (not modelled).
Entries that are not finite print as `nan` / `inf` / `-inf`. -/

def vecOfF (l : List Rat) : Vec Float :=
  let a := (l.map ratFloat).toArray
  fun k => a.getD k 0

def showF (x : Float) : String :=
  match floatRat x with
  | some r => showRat r
  | none => if x.isNaN then "nan" else if x > 0 then "inf" else "-inf"

def showFs (n : Nat) (v : Vec Float) : String :=
  if n = 0 then "-" else ",".intercalate ((List.range n).map fun k => showF (v k))

def parseLeaf : List String → Option (Leaf Float)
  | ["norm", n] => do pure (.norm (← n.toNat?))
  | ["dist", n, y] => do pure (.dist (← n.toNat?) (vecOfF (← parseRatList y)))
  | ["l2norm", n] => do pure (.l2norm (← n.toNat?))
  | ["cmod", n] => do pure (.cmod (← n.toNat?))
  | ["pwnorm", m, n] => do pure (.pwnorm (← m.toNat?) (← n.toNat?))
  | _ => none

def doLeaf (l : Line) : Option String := do
  let t ← l.get? "t"
  let lf ← parseLeaf (t.splitOn "|")
  let xs ← l.rats? "x"
  let ds ← l.rats? "d"
  if xs.length ≠ lf.dom || ds.length ≠ lf.dom then none
  if !lf.wf then return "err:wf"
  let x := vecOfF xs
  let d := vecOfF ds
  let head := s!"dom={lf.dom} ran={lf.ran} val={showFs lf.ran (lf.run x)}"
  match lf.deriv x with
  | none => some s!"err:deriv {head}"
  | some j =>
    some s!"ok {head} ddom={j.dom} dran={j.ran} dvec={showFs j.dom j.vec} dval={showFs j.ran (j.run d)}"


/-! `leafcomp t=<leaf> u=<tree> x=<vec> d=<vec>`: `OperatorComp(leaf, tree)`; the tree at `Rat`, the
leaf at `Float` on the (exactly converted) inner value.  Answer:
`ok dom=N ran=N val=<op(x)> dval=<op.derivative(x)(d)>`, `err:deriv dom=N ran=N val=<op(x)>` or
`err:wf`. -/
def doLeafComp (l : Line) : Option String := do
  let t ← l.get? "t"
  let lf ← parseLeaf (t.splitOn "|")
  let u ← l.get? "u"
  let (i, rest) ← parseTree (u.splitOn "|")
  if !rest.isEmpty then none
  let xs ← l.rats? "x"
  let ds ← l.rats? "d"
  if xs.length ≠ i.dom || ds.length ≠ i.dom then none
  if !compWf lf i then return "err:wf"
  let x := vecOf xs
  let d := vecOf ds
  let head := s!"dom={i.dom} ran={lf.ran} val={showFs lf.ran (compRun ratFloat lf i x)}"
  match compDeriv ratFloat lf i x d with
  | none => some s!"err:deriv {head}"
  | some v => some s!"ok {head} dval={showFs lf.ran v}"


/-! `lin t=<pwinner|m|n|<g> or pwsum|m|n> x=<vec> d=<vec>`: the linear point-wise operators at `Float`:
`ok dom=N ran=N val=<op(x)> dval=<op.derivative(x)(d)>` or `err:wf`. -/
def parseLin : List String → Option (Lin Float)
  | ["pwinner", m, n, g] => do pure (.pwinner (← m.toNat?) (← n.toNat?) (vecOfF (← parseRatList g)))
  | ["pwsum", m, n] => do pure (Lin.pwsum (← m.toNat?) (← n.toNat?))
  | _ => none

def doLin (l : Line) : Option String := do
  let t ← l.get? "t"
  let j ← parseLin (t.splitOn "|")
  let xs ← l.rats? "x"
  let ds ← l.rats? "d"
  if xs.length ≠ j.dom || ds.length ≠ j.dom then none
  if !j.wf then return "err:wf"
  let x := vecOfF xs
  let d := vecOfF ds
  some s!"ok dom={j.dom} ran={j.ran} val={showFs j.ran (j.run x)} dval={showFs j.ran ((j.deriv x).run d)}"


/-! `ucomp name=<ufunc> u=<tree> x=<vec> d=<vec>`: `OperatorComp(ufunc(rn(n)), tree)`, tree at `Rat`, ufunc and
the GENERATED derivative table at `Float`: `ok dom=N ran=N val=<op(x)> dval=<op.derivative(x)(d)>`,
`err:deriv`, `err:wf`. -/
def doUcomp (l : Line) : Option String := do
  let name ← l.get? "name"
  let f ← OdlModel.UfuncDeriv.Fn.ofName? name
  let (_, e) ← OdlModel.Gen.UfuncDeriv.table.find? (fun p => p.1 = f)
  let u ← l.get? "u"
  let (i, rest) ← parseTree (u.splitOn "|")
  if !rest.isEmpty then none
  let xs ← l.rats? "x"
  let ds ← l.rats? "d"
  if xs.length ≠ i.dom || ds.length ≠ i.dom then none
  if !ucompWf i then return "err:wf"
  let x := vecOf xs
  let d := vecOf ds
  let head := s!"dom={i.dom} ran={i.ran} val={showFs i.ran (ucompRun ratFloat f.float i x)}"
  match ucompDeriv ratFloat (fun t => e.evalF f t) i x d with
  | none => some s!"err:deriv {head}"
  | some v => some s!"ok {head} dval={showFs i.ran v}"

def handle (l : Line) : Option String :=
  match l.op with
  | "deriv" => doDeriv l
  | "ufunc" => doUfunc l
  | "leaf" => doLeaf l
  | "leafcomp" => doLeafComp l
  | "lin" => doLin l
  | "ucomp" => doUcomp l
  | _ => none

def main : IO Unit := driverLoop handle
