import OdlModel.Common
import OdlModel.Model.CRat
import OdlModel.Model.Lincomb
import OdlModel.Gen.LincombTree
import OdlModel.Model.ElemOps
import OdlModel.Gen.Broadcast
import OdlModel.Gen.OpFront
open OdlModel OdlModel.Lincomb OdlModel.ElemOps

/-- Descriptor field `lay=<6 bits>`: c/f contiguity of x1.data, x2.data, out.data;
`dd`/`nb`/`tb` = dtypes differ / dtype not BLAS / too big. -/
def parseDesc (l : Line) : Option Desc := do
  let lay ← l.get? "lay"
  let bits := lay.toList.map (· == '1')
  if bits.length ≠ 6 then none
  let g (i : Nat) := bits.getD i false
  let dd ← l.bool? "dd"
  let nb ← l.bool? "nb"
  let tb ← l.bool? "tb"
  some ⟨⟨g 0, g 1⟩, ⟨g 2, g 3⟩, ⟨g 4, g 5⟩, dd, nb, tb⟩

def contigDesc : Desc := ⟨⟨true, true⟩, ⟨true, true⟩, ⟨true, true⟩, false, false, false⟩

def regimeName : Regime → String
  | .small => "small" | .fallback => "fallback" | .blas => "blas"

/-- `lincomb size=N lay=… dd= nb= tb= x1=ID x2=ID out=ID a=C b=C n=LEN m0=… m1=… m2=…`
answers `ok blas=<0|1> reg=<regime> leaf=<primitive trace> m0=… m1=… m2=…`
(the model's `_blas_is_applicable`, the regime, the leaf of the dispatch that runs, and all
three buffers after the call). -/
def doLincomb (l : Line) : Option String := do
  let size ← l.nat? "size"
  let d ← parseDesc l
  let x1 ← l.nat? "x1"
  let x2 ← l.nat? "x2"
  let out ← l.nat? "out"
  let a ← l.crat? "a"
  let b ← l.crat? "b"
  let n ← l.nat? "n"
  let m0 ← l.crats? "m0"
  let m1 ← l.crats? "m1"
  let m2 ← l.crats? "m2"
  if x1 > 2 || x2 > 2 || out > 2 then none
  let a0 := m0.toArray; let a1 := m1.toArray; let a2 := m2.toArray
  let mem : Mem CRat := fun b i =>
    match b with
    | 0 => a0.getD i 0
    | 1 => a1.getD i 0
    | _ => a2.getD i 0
  let P := Gen.Lincomb.params
  let A : Args := ⟨x1, x2, out⟩
  let blasOk := P.blasTree.eval d
  let reg := regime P.thrSmall P.thrMedium size blasOk
  let zero := P.zeroGuard && decide (a = 0) && decide (b = 0)
  let leaf : String :=
    if zero then "zeroguard"
    else match reg with
      | .small =>
        let t := P.progSmall.trace A a b
        if t.isEmpty then "noop" else "+".intercalate t
      | _ =>
        let t := P.prog.trace A a b
        let t2 := if t.contains "recurse" then
            t ++ (if P.zeroGuard && decide (a + b = 0) then ["zeroguard"]
                  else P.prog.trace { A with x2 := A.x1 } (a + b) 0)
          else t
        if t2.isEmpty then "noop" else "+".intercalate t2
  match lincombImpl P size d A a b mem with
  | none => some "err:depth"
  | some m' =>
    let dump (b : Nat) := showCList ((List.range n).map (m' b))
    some s!"ok blas={if blasOk then 1 else 0} reg={regimeName reg} leaf={leaf} m0={dump 0} m1={dump 1} m2={dump 2}"

/-- `leaves` : every distinct leaf trace of the extracted dispatch over the 5 alias patterns
and all scalar classes (used by the harness as the list of model branches to hit). -/
def doLeaves (_l : Line) : Option String :=
  let P := Gen.Lincomb.params
  let aliases : List Args := [⟨0, 1, 2⟩, ⟨0, 0, 2⟩, ⟨0, 1, 0⟩, ⟨0, 1, 1⟩, ⟨0, 0, 0⟩]
  let scal : List CRat := [0, 1, ⟨-1, 0⟩, 2, ⟨-2, 0⟩]
  let all := aliases.flatMap fun A => scal.flatMap fun a => scal.map fun b =>
    if P.zeroGuard && decide (a = 0) && decide (b = 0) then "zeroguard"
    else
      let t := P.prog.trace A a b
      let t2 := if t.contains "recurse" then
          t ++ (if P.zeroGuard && decide (a + b = 0) then ["zeroguard"]
                else P.prog.trace { A with x2 := A.x1 } (a + b) 0)
        else t
      if t2.isEmpty then "noop" else "+".intercalate t2
  some ("ok leaves=" ++ ",".intercalate all.eraseDups)

/-- Entry-wise specification of the derived element arithmetic:
`elem op=<name> x=… y=… c=…` answers the entry-wise formula. -/
def doElem (l : Line) : Option String := do
  let op ← l.get? "op"
  let x ← l.crats? "x"
  let y := (l.crats? "y").getD []
  let c := (l.crat? "c").getD 0
  let zip (f : CRat → CRat → CRat) := List.zipWith f x y
  let r ← match op with
    | "add" => some (zip (· + ·))
    | "sub" => some (zip (· - ·))
    | "mul" => some (zip (· * ·))
    | "div" => if y.any (· = 0) then none else some (zip (· / ·))
    | "neg" => some (x.map (fun v => -v))
    | "adds" => some (x.map (· + c))
    | "subs" => some (x.map (· - c))
    | "rsubs" => some (x.map (c - ·))
    | "muls" => some (x.map (c * ·))
    | "divs" => if c = 0 then none else some (x.map (· / c))
    | "rdivs" => if x.any (· = 0) then none else some (x.map (c / ·))
    | "lincomb" =>
        let d := (l.crat? "d").getD 0
        some (zip (fun u v => c * u + d * v))
    | "pow" => do
        let p ← l.nat? "p"
        some (x.map (fun v => (List.replicate p v).foldl (· * ·) 1))
    | _ => none
  some s!"ok r={showCList r}"

def tensorLC (size : Nat) (_blas : Bool) : LC CRat := fun A a b m =>
  lincombImpl Gen.Lincomb.params size contigDesc A a b m

def memOf (bufs : List (List CRat)) : Mem CRat :=
  let arrs := bufs.toArray.map (·.toArray)
  fun b i => (arrs.getD b #[]).getD i 0

def parseOp : String → Option Op
  | "addE" => some .addE | "subE" => some .subE | "mulE" => some .mulE | "divE" => some .divE
  | "rsubE" => some .rsubE | "rdivE" => some .rdivE
  | "addS" => some .addS | "subS" => some .subS | "rsubS" => some .rsubS | "mulS" => some .mulS
  | "divS" => some .divS | "rdivS" => some .rdivS
  | "iaddE" => some .iaddE | "isubE" => some .isubE | "imulE" => some .imulE
  | "idivE" => some .idivE | "iaddS" => some .iaddS | "isubS" => some .isubS
  | "imulS" => some .imulS | "idivS" => some .idivS
  | "neg" => some .neg | "pos" => some .pos | "setZero" => some .setZero
  | "assign" => some .assign
  | _ => none

/-- `elemop op=<Op> alias=0|1 c=C n=LEN x=… y=…` : run the statement-level model of the
operator (self = buffer 0, other = buffer 1 or 0 when aliased, fresh temp = buffer 2 filled
with junk 77) and answer `ok r=<id> res=… x=… y=…`. Division by an exact zero is `err:div0`. -/
def doElemOp (l : Line) : Option String := do
  let op ← l.get? "op" >>= parseOp
  let alias ← l.bool? "alias"
  let c := (l.crat? "c").getD 0
  let n ← l.nat? "n"
  let x ← l.crats? "x"
  let y := (l.crats? "y").getD []
  let junk : List CRat := List.replicate n ⟨77, 0⟩
  let m := memOf [x, y, junk]
  let yi := if alias then 0 else 1
  -- element divisors with a zero entry: outside exact arithmetic (NumPy gives inf/nan);
  -- a scalar zero divisor is inside the model: `Op.exec` returns `none` (the call raises)
  let divisorZeroEntry : Bool :=
    match op with
    | .divE | .idivE => ((List.range n).any fun i => m yi i = 0)
    | .rdivS | .rdivE => ((List.range n).any fun i => m 0 i = 0)
    | _ => false
  if divisorZeroEntry then some "undef:div0entry" else
  match op.exec (tensorLC n false) 0 yi 2 c m with
  | none => some "raises"
  | some (m', r) =>
    let dump (b : Nat) := showCList ((List.range n).map (m' b))
    some s!"ok r={r} res={dump r} x={dump 0} y={dump yi}"

/-- `ipow p=P n=LEN x=…` : the generic `__ipow__` recursion for an INTEGER exponent
(`p < 0`: `x **= -p` then `divide(one(), x, out=x)`). -/
def doIpow (l : Line) : Option String := do
  let p ← l.int? "p"
  let n ← l.nat? "n"
  let x ← l.crats? "x"
  let m := memOf [x, List.replicate n ⟨77, 0⟩]
  if p < 0 && ((List.range n).any fun i => m 0 i = 0) then some "undef:div0entry" else
  match ipowInt (tensorLC n false) 0 1 p m with
  | none => some "raises"
  | some m' => some s!"ok x={showCList ((List.range n).map (m' 0))}"

/-- `plincomb a=C b=C xs=ids ys=ids os=ids sizes=… bufs=b0|b1|…` : product-space lincomb over
leaf parts; buffer contents separated by `|`. Answers all buffers afterwards. -/
def doPLincomb (l : Line) : Option String := do
  let a ← l.crat? "a"
  let b ← l.crat? "b"
  let xs ← l.nats? "xs"
  let ys ← l.nats? "ys"
  let os ← l.nats? "os"
  let raw ← l.get? "bufs"
  let bufs ← (raw.splitOn "|").mapM parseCList
  let m := memOf bufs
  -- each part uses its own size for the regime; the model's result is regime independent,
  -- so the driver uses the part length of the first buffer of the triple
  let lc : LC CRat := fun A a b m => tensorLC ((bufs.getD A.out []).length) false A a b m
  match plincomb lc xs ys os a b m with
  | none => some "err:shape"
  | some m' =>
    let outs := (List.range bufs.length).map fun k =>
      showCList ((List.range ((bufs.getD k []).length)).map (m' k))
    some ("ok bufs=" ++ "|".intercalate outs)

/-- `front f=<9 bits>` : outcome of the argument checks of `LinearSpace.lincomb`. -/
def doFront (l : Line) : Option String := do
  let f ← l.get? "f"
  let bits := f.toList.map (· == '1')
  if bits.length ≠ 9 then none
  let g (i : Nat) := bits.getD i false
  let r := lincombFront (g 0) (g 1) (g 2) (g 3) (g 4) (g 5) (g 6) (g 7) (g 8)
  some (match r with
    | .errOut => "err:out" | .errA => "err:a" | .errX1 => "err:x1" | .errX2NoB => "err:x2nob"
    | .errB => "err:b" | .errX2 => "err:x2" | .callOne => "call:one" | .callTwo => "call:two")

/-- `bcast op=<iaddE|isubE|imulE|idivE> own=<index of the part that is `other`, or -1> n=LEN
parts=p0|p1|… other=…` : in-place power-space broadcasting `x op= other` with the copy guard as
extracted (`Gen.Broadcast.copyGuard`). Answers the parts and the operand afterwards. -/
def doBcast (l : Line) : Option String := do
  let op ← l.get? "op" >>= parseOp
  let own ← l.int? "own"
  let n ← l.nat? "n"
  let raw ← l.get? "parts"
  let parts ← (raw.splitOn "|").mapM parseCList
  let other := (l.crats? "other").getD []
  let k := parts.length
  let junk : List CRat := List.replicate n ⟨77, 0⟩
  let m := memOf (parts ++ [other, junk, junk])
  let o : Nat := if own < 0 then k else own.toNat
  if op == .idivE && ((List.range n).any fun i => m o i = 0) then some "undef:div0entry" else
  let lc := tensorLC n false
  match bcastInPlace lc (opStep lc op (k + 2)) OdlModel.Gen.Broadcast.copyGuard (List.range k) o (k + 1) m with
  | none => some "raises"
  | some m' =>
    let dump (b : Nat) := showCList ((List.range n).map (m' b))
    some ("ok parts=" ++ "|".intercalate ((List.range k).map dump) ++ s!" other={dump o}")

/-- `bcasto op=<addE|subE|mulE|divE|rsubE|rdivE> own=<index of the part that is `other`, or -1>
n=LEN ids=<buffer id of each part: equal ids = the same part object> parts=b0|b1|… other=…` :
OUT-OF-PLACE power-space broadcasting with `Gen.Broadcast.copyGuardAlways` as extracted.
`parts` lists the DISTINCT part buffers; `ids` says which buffer each part of `x` is.
Answers the result parts, the part buffers and the operand afterwards. -/
def doBcastOut (l : Line) : Option String := do
  let op ← l.get? "op" >>= parseOp
  if !(op == .addE || op == .subE || op == .mulE || op == .divE || op == .rsubE || op == .rdivE) then none
  let own ← l.int? "own"
  let n ← l.nat? "n"
  let ids ← l.nats? "ids"
  let raw ← l.get? "parts"
  let parts ← (raw.splitOn "|").mapM parseCList
  let other := (l.crats? "other").getD []
  let k := parts.length
  if ids.any (· ≥ k) then none
  let r := ids.length
  let junk : List CRat := List.replicate n ⟨77, 0⟩
  -- buffers: 0..k-1 the distinct parts, k the external operand, k+1..k+r the results, k+r+1 the copy
  let m := memOf (parts ++ [other] ++ List.replicate (r + 1) junk)
  let o : Nat := if own < 0 then k else own.toNat
  if o > k then none
  let zeroIn (b : Nat) : Bool := (List.range n).any fun i => m b i = 0
  if (op == .divE && zeroIn o) || (op == .rdivE && ids.any zeroIn) then some "undef:div0entry" else
  let lc := tensorLC n false
  let ts := (List.range r).map (· + k + 1)
  match bcastOut lc (opStepOut lc op) OdlModel.Gen.Broadcast.copyGuardAlways ids ts o (k + r + 1) m with
  | none => some "raises"
  | some m' =>
    let dump (b : Nat) := showCList ((List.range n).map (m' b))
    some ("ok res=" ++ "|".intercalate (ts.map dump) ++ " parts=" ++
      "|".intercalate ((List.range k).map dump) ++ s!" other={dump o}")

/-- `pmuldiv f=<mul|div> xs=ids ys=ids os=ids bufs=b0|b1|…` : `ProductSpace._multiply/_divide`
over leaf parts (a tensor space is the one-leaf case). Answers all buffers afterwards. -/
def doPMulDiv (l : Line) : Option String := do
  let f ← l.get? "f"
  let xs ← l.nats? "xs"
  let ys ← l.nats? "ys"
  let os ← l.nats? "os"
  let raw ← l.get? "bufs"
  let bufs ← (raw.splitOn "|").mapM parseCList
  let m := memOf bufs
  let len (b : Nat) := (bufs.getD b []).length
  if f == "div" && ys.any (fun y => (List.range (len y)).any fun i => m y i = 0) then
    some "undef:div0entry" else
  let r ← match f with
    | "mul" => some (pmultiply xs ys os m)
    | "div" => some (pdivide xs ys os m)
    | _ => none
  match r with
  | none => some "err:shape"
  | some m' =>
    let outs := (List.range bufs.length).map fun k => showCList ((List.range (len k)).map (m' k))
    some ("ok bufs=" ++ "|".intercalate outs)

/-- `pelemop op=<Op> alias=0|1 c=C x=p0|p1|… y=q0|q1|…` : the statement-level model of the
operator on a PRODUCT-space element (`Op.execP`): self = leaf buffers 0..k-1, other = k..2k-1
(or self's when aliased), fresh parts = 2k..3k-1 filled with junk 77; every leaf runs the
extracted tensor `_lincomb` at its own size. Answers result, self and other parts afterwards. -/
def doPElemOp (l : Line) : Option String := do
  let op ← l.get? "op" >>= parseOp
  let alias ← l.bool? "alias"
  let c := (l.crat? "c").getD 0
  let rawx ← l.get? "x"
  let xp ← (rawx.splitOn "|").mapM parseCList
  let k := xp.length
  let yp ← if alias then some xp else (l.get? "y") >>= fun r => (r.splitOn "|").mapM parseCList
  if yp.length ≠ k then none
  let junk := xp.map fun q => List.replicate q.length (⟨77, 0⟩ : CRat)
  let bufs := xp ++ yp ++ junk
  let m := memOf bufs
  let len (b : Nat) := (bufs.getD b []).length
  let xs := List.range k
  let ys := if alias then xs else xs.map (· + k)
  let ts := xs.map (· + 2 * k)
  let zeroIn (b : Nat) : Bool := (List.range (len b)).any fun i => m b i = 0
  let divisorZeroEntry : Bool :=
    match op with
    | .divE | .idivE => ys.any zeroIn
    | .rdivS | .rdivE => xs.any zeroIn
    | _ => false
  if divisorZeroEntry then some "undef:div0entry" else
  let lc : LC CRat := fun A a b m => tensorLC (len A.out) false A a b m
  match op.execP lc xs ys ts c m with
  | none => some "raises"
  | some (m', r) =>
    let dump (b : Nat) := showCList ((List.range (len b)).map (m' b))
    let dumps (bs : List Nat) := "|".intercalate (bs.map dump)
    some s!"ok inplace={if r == xs then 1 else 0} res={dumps r} x={dumps xs} y={dumps ys}"

/-- `tover f=<copy|conj|setreal|setimag> real=0|1 out=<none|self|other> n=LEN x=… o=… v=…` :
the tensor-element overrides (`tcopy`, `tconj`, `setReal`, `setImag`): self = buffer 0, the
`out` element = buffer 1 (or 0 for `out is self`), fresh = buffer 2 (junk 77). Answers the
buffer of the returned element and all three buffers. -/
def doTOver (l : Line) : Option String := do
  let f ← l.get? "f"
  let isReal ← l.bool? "real"
  let outS ← l.get? "out"
  let n ← l.nat? "n"
  let x ← l.crats? "x"
  let o := (l.crats? "o").getD (List.replicate n ⟨55, 0⟩)
  let v := ((l.crats? "v").getD []).toArray
  let out ← match outS with
    | "none" => some none | "self" => some (some 0) | "other" => some (some 1) | _ => none
  let m := memOf [x, o, List.replicate n ⟨77, 0⟩]
  let vv : Vec CRat := fun i => v.getD i 0
  let r ← match f with
    | "copy" => some (some (tcopy 0 2 m))
    | "conj" => some (some (tconj CRat.conj isReal 0 out 2 m))
    | "setreal" => some (some (setReal isReal 0 vv m, 0))
    | "setimag" => some ((setImag isReal 0 vv m).map (·, 0))
    | _ => none
  match r with
  | none => some "raises"
  | some (m', r) =>
    let dump (b : Nat) := showCList ((List.range n).map (m' b))
    some s!"ok r={r} res={dump r} x={dump 0} o={dump 1}"

/-- `ipowroute tensor=0|1 p=<rational>` : where `x **= p` goes (`ipowRoute`). -/
def doIpowRoute (l : Line) : Option String := do
  let t ← l.bool? "tensor"
  let p ← l.rat? "p"
  some (match ipowRoute t p with
    | .generic k => s!"generic:{k}" | .npPower => "nppower" | .raises => "raises")

/-- `elemopl op=<…E Op> n=LEN x=… v=…` : an array-like operand (`Op.execCoerced`): self =
buffer 0, the buffer `space.element(other)` wraps = 1 (junk 55 before the coercion), fresh
result = 2 (junk 77). Answers the returned buffer, the result, self and the coerced buffer. -/
def doElemOpL (l : Line) : Option String := do
  let op ← l.get? "op" >>= parseOp
  let n ← l.nat? "n"
  let x ← l.crats? "x"
  let v ← l.crats? "v"
  let m := memOf [x, List.replicate n ⟨55, 0⟩, List.replicate n ⟨77, 0⟩]
  let va := v.toArray
  let vv : Vec CRat := fun i => va.getD i 0
  let divisorZeroEntry : Bool :=
    match op with
    | .divE | .idivE => ((List.range n).any fun i => vv i = 0)
    | .rdivE => ((List.range n).any fun i => m 0 i = 0)
    | _ => false
  if divisorZeroEntry then some "undef:div0entry" else
  match op.execCoerced (tensorLC n false) 0 1 2 vv m with
  | none => some "raises"
  | some (m', r) =>
    let dump (b : Nat) := showCList ((List.range n).map (m' b))
    some s!"ok r={r} res={dump r} x={dump 0} l={dump 1}"

def parseMeth : String → Option Meth
  | "add" => some .add | "radd" => some .radd | "sub" => some .sub | "rsub" => some .rsub
  | "mul" => some .mul | "rmul" => some .rmul | "truediv" => some .truediv
  | "rtruediv" => some .rtruediv | "iadd" => some .iadd | "isub" => some .isub
  | "imul" => some .imul | "itruediv" => some .itruediv
  | _ => none

def methName : Meth → String
  | .add => "add" | .radd => "radd" | .sub => "sub" | .rsub => "rsub" | .mul => "mul"
  | .rmul => "rmul" | .truediv => "truediv" | .rtruediv => "rtruediv" | .iadd => "iadd"
  | .isub => "isub" | .imul => "imul" | .itruediv => "itruediv"

/-- `opfront op=<method> kind=<operand kind>` : the EXTRACTED chain in front of the operator
(`Gen.OpFront.progOf`) evaluated on the facts of that operand kind. -/
def doOpFront (l : Line) : Option String := do
  let m ← l.get? "op" >>= parseMeth
  let kind ← l.get? "kind"
  let z : OFacts := ⟨false, false, false, false, false, false, false⟩
  let f ← match kind with
    | "foreign" => some { z with isElem := true }
    | "uncoercible" => some z
    | "priority" => some { z with prio := true }
    | "nofield" => some { z with noField := true, inSpace := true, isElem := true }
    | "nofield-scalar" => some { z with noField := true }
    | "noone" => some { z with inField := true, noOne := true }
    | "element" => some { z with inSpace := true, isElem := true }
    | "scalar" => some { z with inField := true }
    | "arraylike" => some { z with coercible := true }
    | _ => none
  match (OdlModel.Gen.OpFront.progOf m).eval OdlModel.Gen.OpFront.progOf 40 f with
  | none => some "err:fuel"
  | some (.delegate d) => some s!"ok route=delegated:__{methName d}__"
  | some .notimpl => some "ok route=notimpl"
  | some .typeerror => some "ok route=typeerror"
  | some .write => some "ok route=element"

def handle (l : Line) : Option String :=
  match l.op with
  | "lincomb" => doLincomb l
  | "elem" => doElem l
  | "elemop" => doElemOp l
  | "ipow" => doIpow l
  | "plincomb" => doPLincomb l
  | "front" => doFront l
  | "bcast" => doBcast l
  | "bcasto" => doBcastOut l
  | "pmuldiv" => doPMulDiv l
  | "pelemop" => doPElemOp l
  | "tover" => doTOver l
  | "elemopl" => doElemOpL l
  | "opfront" => doOpFront l
  | "ipowroute" => doIpowRoute l
  | "leaves" => doLeaves l
  | _ => none

def main : IO Unit := driverLoop handle
