import OdlModel.Common
import OdlModel.Model.CRat
import OdlModel.Model.Lincomb
import OdlModel.Gen.LincombTree
open OdlModel OdlModel.Lincomb

/-- `lincomb size=N blas=0|1 x1=ID x2=ID out=ID a=C b=C n=LEN m0=… m1=… m2=…`
answers `ok m0=… m1=… m2=…` (all three buffers after the call). -/
def doLincomb (l : Line) : Option String := do
  let size ← l.nat? "size"
  let blas ← l.bool? "blas"
  let x1 ← l.nat? "x1"
  let x2 ← l.nat? "x2"
  let out ← l.nat? "out"
  let a ← l.crat? "a"
  let b ← l.crat? "b"
  let n ← l.nat? "n"
  let m0 ← l.crats? "m0"
  let m1 ← l.crats? "m1"
  let m2 ← l.crats? "m2"
  if x1 > 2 || x2 > 2 || out > 2 then none
  let a0 := m0.toArray; let a1 := m1.toArray; let a2 := m2.toArray
  let mem : Mem CRat := fun b i =>
    match b with
    | 0 => a0.getD i 0
    | 1 => a1.getD i 0
    | _ => a2.getD i 0
  match lincombImpl Gen.Lincomb.thrSmall Gen.Lincomb.thrMedium Gen.Lincomb.fbGuard
      Gen.Lincomb.prog size blas ⟨x1, x2, out⟩ a b mem with
  | none => some "err:depth"
  | some m' =>
    let dump (b : Nat) := showCList ((List.range n).map (m' b))
    some s!"ok m0={dump 0} m1={dump 1} m2={dump 2}"

/-- Entry-wise specification of the derived element arithmetic:
`elem op=<name> x=… y=… c=…` answers the entry-wise formula. -/
def doElem (l : Line) : Option String := do
  let op ← l.get? "op"
  let x ← l.crats? "x"
  let y := (l.crats? "y").getD []
  let c := (l.crat? "c").getD 0
  let zip (f : CRat → CRat → CRat) := List.zipWith f x y
  let r ← match op with
    | "add" => some (zip (· + ·))
    | "sub" => some (zip (· - ·))
    | "mul" => some (zip (· * ·))
    | "div" => if y.any (· = 0) then none else some (zip (· / ·))
    | "neg" => some (x.map (fun v => -v))
    | "adds" => some (x.map (· + c))
    | "subs" => some (x.map (· - c))
    | "rsubs" => some (x.map (c - ·))
    | "muls" => some (x.map (c * ·))
    | "divs" => if c = 0 then none else some (x.map (· / c))
    | "rdivs" => if x.any (· = 0) then none else some (x.map (c / ·))
    | "lincomb" =>
        let d := (l.crat? "d").getD 0
        some (zip (fun u v => c * u + d * v))
    | "pow" => do
        let p ← l.nat? "p"
        some (x.map (fun v => (List.replicate p v).foldl (· * ·) 1))
    | _ => none
  some s!"ok r={showCList r}"

def handle (l : Line) : Option String :=
  match l.op with
  | "lincomb" => doLincomb l
  | "elem" => doElem l
  | _ => none

def main : IO Unit := driverLoop handle
