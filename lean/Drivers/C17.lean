import OdlModel.Common
import OdlModel.Model.Ufunc
import OdlModel.Gen.UfuncLegacy
import OdlModel.Model.UfuncValue
open OdlModel OdlModel.Ufunc OdlModel.UfuncValue

/-! Line-protocol driver for the C17 decision model. One request per line, one canonical
outcome per line; anything unknown or malformed is `none` (printed `bad-op`). -/

def parseShape (s : String) : Option (List Nat) :=
  if s = "-" then some [] else (s.splitOn "x").mapM String.toNat?

def showShape (l : List Nat) : String :=
  if l.isEmpty then "-" else "x".intercalate (l.map toString)

def parseDType : String → Option DType
  | "bool" => some .bool | "int8" => some .int8 | "int16" => some .int16
  | "int32" => some .int32 | "int64" => some .int64 | "uint8" => some .uint8
  | "uint16" => some .uint16 | "uint32" => some .uint32 | "uint64" => some .uint64
  | "float16" => some .float16 | "float32" => some .float32 | "float64" => some .float64
  | "float128" => some .longdouble | "complex64" => some .complex64
  | "complex128" => some .complex128 | "complex256" => some .clongdouble
  | "object" => some .object
  | _ => none

def showDType : DType → String
  | .bool => "bool" | .int8 => "int8" | .int16 => "int16" | .int32 => "int32"
  | .int64 => "int64" | .uint8 => "uint8" | .uint16 => "uint16" | .uint32 => "uint32"
  | .uint64 => "uint64" | .float16 => "float16" | .float32 => "float32"
  | .float64 => "float64" | .longdouble => "float128" | .complex64 => "complex64"
  | .complex128 => "complex128" | .clongdouble => "complex256" | .object => "object"

def parseExp (s : String) : Option Exponent :=
  if s = "inf" then some none else (parseRat s).map some

def showExp : Exponent → String
  | none => "inf"
  | some r => showRat r

def parseWeighting (s : String) : Option Weighting :=
  match s.splitOn "@" with
  | [a, e] => do
      let e ← parseExp e
      if a = "k" then some (.custom e)
      else if a.startsWith "a" then (parseDType (a.drop 1).toString).map (fun d => .array d e)
      else if a.startsWith "c" then (parseRat (a.drop 1).toString).map (fun c => .const c e)
      else none
  | _ => none

def showWeighting : Weighting → String
  | .const c e => s!"c{showRat c}@{showExp e}"
  | .array d e => s!"a{showDType d}@{showExp e}"
  | .custom e => s!"k@{showExp e}"

def parseSide (s : String) : Option Side :=
  if s.startsWith "nu:" then
    ((s.drop 3).toString.splitOn "|").mapM parseRat |>.map .nonuniform
  else (parseRat s).map .uniform

def showSide : Side → String
  | .uniform r => showRat r
  | .nonuniform pts => "nu:" ++ "|".intercalate (pts.map showRat)

def parseCell (s : String) : Option Cell :=
  match s.splitOn "," with
  | [a, b, n, sd] => do
      let a ← parseRat a
      let b ← parseRat b
      let n ← n.toNat?
      let sd ← parseSide sd
      some ⟨a, b, n, sd⟩
  | _ => none

def parsePart (s : String) : Option (List Cell) :=
  if s = "-" then some [] else (s.splitOn ";").mapM parseCell

def showPart (p : List Cell) : String :=
  if p.isEmpty then "-"
  else ";".intercalate (p.map fun c => s!"{showRat c.lo},{showRat c.hi},{c.n},{showSide c.side}")

def parseMethod : String → Option Method
  | "call" => some .call | "reduce" => some .reduce | "accumulate" => some .accumulate
  | "outer" => some .outer | "at" => some .at | "reduceat" => some .reduceat
  | _ => none

def parseKind : String → Option Kind
  | "tensor" => some .tensor | "discr" => some .discr | "power" => some .power
  | _ => none

def parseOutChar : Char → Option OutKind
  | 'N' => some .none | 'e' => some .own | 't' => some .tensor | 'a' => some .ndarray
  | '0' => some .ndarray0 | 'w' => some .foreign | 'd' => some .foreign | 'p' => some .foreign
  | _ => none

def parseOuts (s : String) : Option (List OutKind) :=
  if s = "absent" || s = "empty" then some [] else s.toList.mapM parseOutChar

def parseInChar : Char → Option InKind
  | 'e' => some .own | 't' => some .tensor | 'a' => some .ndarray | 's' => some .scalar
  | 'l' => some .list | 'd' => some .foreign | 'p' => some .foreign
  | _ => none

def parseIns (s : String) : Option (List InKind) :=
  if s = "-" then some [] else s.toList.mapM parseInChar

def parseAxis (s : String) : Option Axis :=
  if s = "absent" then some .absent
  else if s = "none" then some .none
  else if s = "empty" then some (.ints [])
  else ((s.splitOn ",").mapM String.toInt?).map .ints

def parseNpVal (s : String) : Option NpVal :=
  if s = "none" then some .none
  else if s = "scalar" then some .scalar
  else match s.splitOn ":" with
    | ["arr", sh, dt] => do
        let sh ← parseShape sh
        let dt ← parseDType dt
        some (.arr sh dt)
    | _ => none

def parseNp (s : String) : Option NpRes :=
  if s.startsWith "err:" then some (.err (s.drop 4).toString)
  else ((s.splitOn "|").mapM parseNpVal).map .ok

/-- `w~part` of one discretized input. -/
def parseInPart (dt : DType) (s : String) : Option DSelf :=
  match s.splitOn "~" with
  | [w, p] => do
      let wt ← parseWeighting w
      let part ← parsePart p
      some ⟨part, dt, wt⟩
  | _ => none

def parseInParts (dt : DType) (s : String) : Option (List DSelf) :=
  if s = "-" then some [] else (s.splitOn "+").mapM (parseInPart dt)

def showRet : Ret → String
  | .given i => s!"given{i}"
  | .none => "none"
  | .scalar => "scalar"
  | .raw sh dt => s!"raw:{showShape sh}:{showDType dt}"
  | .wrapT sh dt w => s!"wrap:t:{showShape sh}:{showDType dt}:{showWeighting w}"
  | .wrapD sh dt w p => s!"wrap:d:{showShape sh}:{showDType dt}:{showWeighting w}:{showPart p}"
  | .wrapP sh dt => s!"wrap:p:{showShape sh}:{showDType dt}"

def showOutcome : Outcome → String
  | .notImpl => "notimpl"
  | .err c => s!"err:{c}"
  | .ok rets => "ok " ++ " ".intercalate (rets.map showRet)

def parseReq (l : Line) : Option Req := do
  let kind ← l.get? "kind" >>= parseKind
  let shape ← l.get? "shape" >>= parseShape
  let dt ← l.get? "dtype" >>= parseDType
  let wstr ← l.get? "w"
  let w ← if wstr = "-" then some Weighting.default else parseWeighting wstr
  let part ← l.get? "part" >>= parsePart
  let method ← l.get? "method" >>= parseMethod
  let nin ← l.nat? "nin"
  let nout ← l.nat? "nout"
  let outs ← l.get? "outs" >>= parseOuts
  let ins ← l.get? "ins" >>= parseIns
  let inParts ← l.get? "inparts" >>= parseInParts dt
  let axis ← l.get? "axis" >>= parseAxis
  let keepdims ← l.bool? "keepdims"
  let np ← l.get? "np" >>= parseNp
  -- consistency: a discretized request must carry a partition of the stated shape
  if kind = .discr then
    if part.map (·.n) ≠ shape then none
  some { kind, shape, dt, w, part, method, nin, nout, outs, ins, inParts, axis, keepdims, np }

def doUfunc (l : Line) : Option String := do
  let r ← parseReq l
  some (showOutcome (dispatch r))

def parseLegacyOut (s : String) : Option LegacyOut :=
  if s = "absent" then some .absent
  else match s.splitOn ":" with
    | ["s", c] => match c.toList with
        | [ch] => (parseOutChar ch).map .single
        | _ => none
    | ["t", cs] => (cs.toList.mapM parseOutChar).map .tuple
    | _ => none

/-- `legacy name=<n> lout=<absent|s:c|t:cc> …request keys…` -/
def doLegacy (l : Line) : Option String := do
  let name ← l.get? "name"
  let lout ← l.get? "lout" >>= parseLegacyOut
  let base ← parseReq l
  let (uname, r) ← legacyCall Gen.UfuncLegacy.legacyNames Gen.UfuncLegacy.legacyRules
    Gen.UfuncLegacy.npUfuncs name lout base
  some s!"ufunc={uname} nin={r.nin} nout={r.nout} {showOutcome (dispatch r)}"

/-- `legacyred name=sum …request keys (outs = the forwarded tuple)…` -/
def doLegacyRed (l : Line) : Option String := do
  let name ← l.get? "name"
  let base ← parseReq l
  let (_, uname, meth) ← Gen.UfuncLegacy.legacyReductions.find? (·.1 = name)
  let m ← parseMethod meth
  let (_, _, nin, nout) ← Gen.UfuncLegacy.npUfuncs.find? (·.1 = uname)
  let r := { base with method := m, nin := nin, nout := nout }
  some s!"ufunc={uname} nin={r.nin} nout={r.nout} {showOutcome (dispatch r)}"

/-- `plegacy name=<n> shape= dtype= outs=<absent|chars> np=…` -/
def doPLegacy (l : Line) : Option String := do
  let name ← l.get? "name"
  let shape ← l.get? "shape" >>= parseShape
  let dt ← l.get? "dtype" >>= parseDType
  let outs0 ← l.get? "outs" >>= parseOuts
  -- optional `outtuple=<2 chars>`: the user's out=(o1, o2) of the (1,2) wrapper
  let outs ← match l.get? "outtuple" with
    | some s => match s.toList.mapM parseOutChar with
        | some [a, b] => some (twoOutArgs (outs0.getD 0 .none) (outs0.getD 1 .none) (some (a, b)))
        | _ => none
    | none => some outs0
  let np ← l.get? "np" >>= parseNp
  let (uname, o) ← powerLegacyCall Gen.UfuncLegacy.legacyNames Gen.UfuncLegacy.legacyPowerRules
    Gen.UfuncLegacy.npUfuncs name ⟨shape, dt⟩ outs np
  some s!"ufunc={uname} {showOutcome o}"

/-- `plegacyred name=sum np=<err:Cls|scalar>`: component reductions combined to a scalar. -/
def doPLegacyRed (l : Line) : Option String := do
  let name ← l.get? "name"
  let np ← l.get? "np" >>= parseNp
  let (_, comb) ← Gen.UfuncLegacy.legacyPowerReductions.find? (·.1 = name)
  match np with
  | .err c => some s!"comb={comb} err:{c}"
  | .ok _ => some s!"comb={comb} ok scalar"

def parseOrder : String → Option Order
  | "none" => some .any | "C" => some .C | "F" => some .F
  | _ => none

def doElement (l : Line) : Option String := do
  let sshape ← l.get? "sshape" >>= parseShape
  let sdt ← l.get? "sdtype" >>= parseDType
  let ashape ← l.get? "ashape" >>= parseShape
  let adt ← l.get? "adtype" >>= parseDType
  let wr ← l.bool? "writeable"
  let cc ← l.bool? "ccontig"
  let fc ← l.bool? "fcontig"
  let o ← l.get? "order" >>= parseOrder
  match element sshape sdt ⟨ashape, adt, wr, cc, fc⟩ o with
  | .err c => some s!"err:{c}"
  | .ok sh => some s!"ok shares={if sh then 1 else 0}"

/-- `npreduce shape=2x3 axis=-1,0` → the model's `npReduce` on the shape -/
def doNpReduce (l : Line) : Option String := do
  let sh ← l.get? "shape" >>= parseShape
  let ax ← l.get? "axis" >>= parseAxis
  match ax with
  | .ints a => match npReduce sh a with
      | some r => some s!"ok {showShape r}"
      | none => some "err"
  | _ => none

/-- `cancast src=<dtype> dst=<dtype>` → the model's `np.can_cast` (safe) -/
def doCanCast (l : Line) : Option String := do
  let a ← l.get? "src" >>= parseDType
  let b ← l.get? "dst" >>= parseDType
  some (if a.canCast b then "1" else "0")

/-! ### ROUND 4: value / buffer model of the legacy product-space interface -/

mutual
/-- `L1,2,3` leaf (`L` = empty), `N(t;t;…)` product (`N()` = no parts) -/
partial def parseTree (cs : List Char) : Option (PTree Rat × List Char) :=
  match cs with
  | 'L' :: rest =>
      let tok := rest.takeWhile (fun c => c != ';' && c != ')')
      let rest' := rest.dropWhile (fun c => c != ';' && c != ')')
      (parseRatList (String.ofList tok)).map (fun v => (PTree.leaf v, rest'))
  | 'N' :: '(' :: ')' :: rest => some (PTree.node [], rest)
  | 'N' :: '(' :: rest => do
      let (ps, rest') ← parseTrees rest
      some (PTree.node ps, rest')
  | _ => none
partial def parseTrees (cs : List Char) : Option (List (PTree Rat) × List Char) := do
  let (t, rest) ← parseTree cs
  match rest with
  | ';' :: r => do
      let (ts, r') ← parseTrees r
      some (t :: ts, r')
  | ')' :: r => some ([t], r)
  | _ => none
end

def parseTreeStr (s : String) : Option (PTree Rat) :=
  match parseTree s.toList with
  | some (t, []) => some t
  | _ => none

partial def showTree : PTree Rat → String
  | .leaf v => "L" ++ ",".intercalate (v.map showRat)
  | .node ps => "N(" ++ ";".intercalate (ps.map showTree) ++ ")"

mutual
/-- `B3` buffer id, `N(b;b;…)` -/
partial def parseBTree (cs : List Char) : Option (BTree × List Char) :=
  match cs with
  | 'B' :: rest =>
      let tok := rest.takeWhile (fun c => c != ';' && c != ')')
      let rest' := rest.dropWhile (fun c => c != ';' && c != ')')
      (String.ofList tok).toNat?.map (fun i => (BTree.buf i, rest'))
  | 'N' :: '(' :: ')' :: rest => some (BTree.node [], rest)
  | 'N' :: '(' :: rest => do
      let (ps, rest') ← parseBTrees rest
      some (BTree.node ps, rest')
  | _ => none
partial def parseBTrees (cs : List Char) : Option (List BTree × List Char) := do
  let (t, rest) ← parseBTree cs
  match rest with
  | ';' :: r => do
      let (ts, r') ← parseBTrees r
      some (t :: ts, r')
  | ')' :: r => some ([t], r)
  | _ => none
end

def parseBTreeStr (s : String) : Option BTree :=
  match parseBTree s.toList with
  | some (t, []) => some t
  | _ => none

/-- NumPy's scalar arithmetic on exact rationals, by `ufunc.__name__` (one input) -/
def unaryOp : String → Option (Rat → Rat)
  | "negative" => some (fun a => -a)
  | "positive" => some (fun a => a)
  | "conjugate" => some (fun a => a)
  | "square" => some (fun a => a * a)
  | "absolute" => some (fun a => if a < 0 then -a else a)
  | "sign" => some (fun a => if a < 0 then -1 else if 0 < a then 1 else 0)
  | "floor" => some (fun a => (a.floor : Rat))
  | "ceil" => some (fun a => -((-a).floor : Rat))
  | _ => none

/-- … two inputs -/
def binaryOp : String → Option (Rat → Rat → Rat)
  | "add" => some (· + ·)
  | "subtract" => some (· - ·)
  | "multiply" => some (· * ·)
  | "maximum" => some (fun a b => if a < b then b else a)
  | "minimum" => some (fun a b => if b < a then b else a)
  | "fmax" => some (fun a b => if a < b then b else a)
  | "fmin" => some (fun a b => if b < a then b else a)
  | _ => none

/-- NumPy's reduction `np.<comb>` of a flat list -/
def combRed : String → Option (List Rat → Option Rat)
  | "sum" => some (foldId (· + ·) 0)
  | "prod" => some (foldId (· * ·) 1)
  | "min" => some (fold1 (fun a b => if b < a then b else a))
  | "max" => some (fold1 (fun a b => if a < b then b else a))
  | _ => none

/-- `psred name=<sum|prod|min|max> tree=<T>`: the combining `np.<comb>` comes from the generated
table of `ProductSpaceUfuncs` (so a changed method body changes the answer). -/
def doPsRed (l : Line) : Option String := do
  let name ← l.get? "name"
  let t ← l.get? "tree" >>= parseTreeStr
  let (_, comb) ← Gen.UfuncLegacy.legacyPowerReductions.find? (·.1 = name)
  let red ← combRed comb
  match psReduce red t with
  | some r => some s!"ok {showRat r}"
  | none => some "err:ValueError"

/-- the wrapper rule and NumPy ufunc of a legacy name, through the generated tables -/
def plegacyRule (name : String) : Option (String × PLegacyRule) := do
  if !Gen.UfuncLegacy.legacyNames.contains name then none
  let (_, uname, nin, nout) ← Gen.UfuncLegacy.npUfuncs.find? (·.1 = name)
  let (_, rule) ← Gen.UfuncLegacy.legacyPowerRules.find? (·.1 = (nin, nout))
  some (uname, rule)

/-- `psmap name=<legacy name> tree=<T>` -/
def doPsMap (l : Line) : Option String := do
  let name ← l.get? "name"
  let t ← l.get? "tree" >>= parseTreeStr
  let (uname, rule) ← plegacyRule name
  if rule ≠ PLegacyRule.mapOrInto then none
  let f ← unaryOp uname
  some s!"ok {showTree (psMap f t)}"

/-- `psbin name=<legacy name> tree=<T> arg=<s:rat|e:T>` -/
def doPsBin (l : Line) : Option String := do
  let name ← l.get? "name"
  let t ← l.get? "tree" >>= parseTreeStr
  let a ← l.get? "arg"
  let arg ← if a.startsWith "s:" then (parseRat (a.drop 2).toString).map PArg.scalar
            else if a.startsWith "e:" then (parseTreeStr (a.drop 2).toString).map PArg.elem
            else none
  let (uname, rule) ← plegacyRule name
  if rule ≠ PLegacyRule.binary then none
  let op ← binaryOp uname
  match psBin op t arg with
  | some r => some s!"ok {showTree r}"
  | none => some "undescribed"

def parseHeap (s : String) : Option (Heap Rat) := (s.splitOn "|").mapM parseRatList
def showHeap (h : Heap Rat) : String := "|".intercalate (h.map showRatList)

/-- `psinto name=<legacy name> heap=<b|b|…> x=<B> out=<B>` -/
def doPsInto (l : Line) : Option String := do
  let name ← l.get? "name"
  let h ← l.get? "heap" >>= parseHeap
  let x ← l.get? "x" >>= parseBTreeStr
  let o ← l.get? "out" >>= parseBTreeStr
  let (uname, rule) ← plegacyRule name
  match l.get? "arg" with
  | some a =>
    -- `px.ufuncs.<binary name>(c, out=o)`: scalar branch of the (2,1) wrapper
    if !a.startsWith "s:" then none
    let c ← parseRat (a.drop 2).toString
    if rule ≠ PLegacyRule.binary then none
    let op ← binaryOp uname
    match psBinScalarInto op c h x o with
    | some h' => some s!"ok {showHeap h'}"
    | none => some "err"
  | none =>
    if rule ≠ PLegacyRule.mapOrInto then none
    let f ← unaryOp uname
    match psMapInto f h x o with
    | some h' => some s!"ok {showHeap h'}"
    | none => some "err"

def handle (l : Line) : Option String :=
  match l.op with
  | "psred" => doPsRed l
  | "psmap" => doPsMap l
  | "psbin" => doPsBin l
  | "psinto" => doPsInto l
  | "ufunc" => doUfunc l
  | "legacy" => doLegacy l
  | "legacyred" => doLegacyRed l
  | "element" => doElement l
  | "cancast" => doCanCast l
  | "npreduce" => doNpReduce l
  | "plegacy" => doPLegacy l
  | "plegacyred" => doPLegacyRed l
  | _ => none

def main : IO Unit := driverLoop handle
