import OdlModel.Common
import OdlModel.Model.CRat
import OdlModel.Model.Fourier
import OdlModel.Model.Wavelet
import OdlModel.Gen.WaveletPad
open OdlModel OdlModel.Fourier OdlModel.Wavelet

/-! Line-protocol driver for C18.  One line in, one canonical line out. -/

def boolList? (l : Line) (k : String) : Option (List Bool) := do
  let v ← l.nats? k
  v.mapM fun n => if n = 0 then some false else if n = 1 then some true else none

/-- `recip n= shift= hc=` -/
def doRecip (l : Line) : Option String := do
  let n ← l.nat? "n"; let sh ← l.bool? "shift"; let hc ← l.bool? "hc"
  if n = 0 then none
  let g := recipGrid n sh hc
  some s!"ok min={showRat g.min} max={showRat g.max} shape={g.shape} stride={showRat g.stride}"

/-- `real m= hc= odd= rstride=` (`realspace_grid` on the last axis) -/
def doReal (l : Line) : Option String := do
  let m ← l.nat? "m"; let hc ← l.bool? "hc"; let odd ← l.bool? "odd"; let c ← l.rat? "rstride"
  if c = 0 then none
  let N := realShape m hc odd
  some s!"ok shape={N} stride={showRat (realStride N c)}"

/-- `pre n= shift= plus=`: exponents (mod 2, in `[0,2)`) of the pre-processing factors -/
def doPre (l : Line) : Option String := do
  let n ← l.nat? "n"; let sh ← l.bool? "shift"; let plus ← l.bool? "plus"
  if n = 0 then none
  some s!"ok q={showRatList ((List.range n).map fun k => mod2 (preExp n sh plus k))}"

/-- `freqs n= len= shift=`: the normalised kernel frequencies -/
def doFreqs (l : Line) : Option String := do
  let n ← l.nat? "n"; let len ← l.nat? "len"; let sh ← l.bool? "shift"
  if n = 0 then none
  let g := interpFreqs n len sh
  some s!"ok f={showRatList ((List.range len).map g.point)}"

def floatRoots (n : Nat) : Option (CF × CF) :=
  if n = 0 then none else
  let w := ePi (mkRat (-2) n)
  some (w, w.conj)

def exactRoots (n : Nat) : Option (CRat × CRat) := (exactRoot n).map fun w => (w, w.conj)

def parseCF (s : String) : Option CF := do
  let z ← CRat.parse s
  pure ⟨ratToFloat z.re, ratToFloat z.im⟩

def checkShape (shape axes : List Nat) (len : Nat) : Bool :=
  shape.all (· > 0) && axes.all (· < shape.length) && axes.eraseDups.length == axes.length &&
    !axes.isEmpty && Wavelet.prod shape == len

/-- `dft num=x|f impl=np|fftw inv= plus= hc= real= rshape= axes= x=`
The plain DFT operators.  `num=x`: exact Gaussian rationals (axis lengths 1, 2, 4 only);
`num=f`: Float pairs.  `rshape` is always the real-space shape. -/
def doDft (l : Line) : Option String := do
  let num ← l.get? "num"; let impl ← l.get? "impl"
  let inv ← l.bool? "inv"; let plus ← l.bool? "plus"; let hc ← l.bool? "hc"
  let real ← l.bool? "real"
  let rshape ← l.nats? "rshape"; let axes ← l.nats? "axes"
  let fftw ← (match impl with | "np" => some false | "fftw" => some true | _ => none)
  let last ← axes.getLast?
  let inShape := if inv then rshape.zipIdx.map fun (n, a) => if hc && a == last then hcLen n else n
                 else rshape
  let xs ← l.get? "x"
  match num with
  | "x" =>
    let x ← parseCList xs
    if !checkShape rshape axes (Wavelet.prod rshape) || x.length ≠ Wavelet.prod inShape then none
    if inv then
      let (sh, y) ← dftInverseNd exactRoots CRat.conj (fun z => ⟨z.re, 0⟩) fftw plus hc rshape axes
          x.toArray
      let y := if real then y.map (fun z => (⟨z.re, 0⟩ : CRat)) else y
      some s!"ok shape={showNatList sh} y={showCList y.toList}"
    else
      let (sh, y) ← dftForwardNd exactRoots fftw plus hc rshape axes x.toArray
      some s!"ok shape={showNatList sh} y={showCList y.toList}"
  | "f" =>
    let x ← parseList parseCF xs
    if !checkShape rshape axes (Wavelet.prod rshape) || x.length ≠ Wavelet.prod inShape then none
    let out (sh : List Nat) (y : Array CF) :=
      s!"ok shape={showNatList sh} y={showList CF.str y.toList}"
    if inv then
      let (sh, y) ← dftInverseNd floatRoots CF.conj (fun z => ⟨z.re, 0⟩) fftw plus hc rshape axes
          x.toArray
      some (out sh (if real then y.map (fun z => (⟨z.re, 0⟩ : CF)) else y))
    else
      let (sh, y) ← dftForwardNd floatRoots fftw plus hc rshape axes x.toArray
      some (out sh y)
  | _ => none

/-- `dftadj num=x|f impl=np|fftw inv= plus= hc= real= exp2= rshape= axes= x=`
`op.adjoint(x)` of a plain DFT operator (`inv=1`: of a `DiscreteFourierTransformInverse`), `plus` the
operator's own sign, `impl` the back-end the RETURNED operator runs on, `exp2`: both exponents 2. -/
def doDftAdj (l : Line) : Option String := do
  let num ← l.get? "num"; let impl ← l.get? "impl"
  let inv ← l.bool? "inv"; let plus ← l.bool? "plus"; let hc ← l.bool? "hc"
  let real ← l.bool? "real"; let exp2 ← l.bool? "exp2"
  let rshape ← l.nats? "rshape"; let axes ← l.nats? "axes"
  let fftw ← (match impl with | "np" => some false | "fftw" => some true | _ => none)
  let last ← axes.getLast?
  match dftAdjointStatus exp2 exp2 with
  | some e => some e
  | none =>
  -- the adjoint of a forward operator eats frequency-side arrays
  let inShape := if !inv then rshape.zipIdx.map fun (n, a) => if hc && a == last then hcLen n else n
                 else rshape
  let xs ← l.get? "x"
  match num with
  | "x" =>
    let x ← parseCList xs
    if !checkShape rshape axes (Wavelet.prod rshape) || x.length ≠ Wavelet.prod inShape then none
    let (sh, y) ← dftAdjointNd exactRoots CRat.conj (fun z => ⟨z.re, 0⟩) fftw inv plus hc rshape axes
        x.toArray
    let y := if real && !inv then y.map (fun z => (⟨z.re, 0⟩ : CRat)) else y
    some s!"ok shape={showNatList sh} y={showCList y.toList}"
  | "f" =>
    let x ← parseList parseCF xs
    if !checkShape rshape axes (Wavelet.prod rshape) || x.length ≠ Wavelet.prod inShape then none
    let (sh, y) ← dftAdjointNd floatRoots CF.conj (fun z => ⟨z.re, 0⟩) fftw inv plus hc rshape axes
        x.toArray
    let y := if real && !inv then y.map (fun z => (⟨z.re, 0⟩ : CF)) else y
    some s!"ok shape={showNatList sh} y={showList CF.str y.toList}"
  | _ => none

/-- `dftrangector fshape= given=`: does the constructor of a plain DFT operator build its range,
and the per-axis extent of the default range -/
def doDftRangeCtor (l : Line) : Option String := do
  let fs ← l.nats? "fshape"; let g ← l.bool? "given"
  if fs.isEmpty || fs.any (· = 0) then none
  match dftDefaultRangeStatus fs g with
  | some e => some e
  | none => some (if g then "ok" else s!"ok extent={showNatList (fs.map dftDefaultRangeExtent)}")

/-- `ft impl=np|fftw inv= plus= hc= realdom= rshape= axes= shifts= x0= s= x=`
`FourierTransform` / `FourierTransformInverse`.  `x0`, `s`: per-AXIS-OF-THE-ARRAY minimum
point and stride of the real-space grid (exact rationals of the floats).  Both back-ends. -/
def doFt (l : Line) : Option String := do
  let impl ← l.get? "impl"
  let inv ← l.bool? "inv"; let plus ← l.bool? "plus"; let hc ← l.bool? "hc"
  let realdom ← l.bool? "realdom"
  let rshape ← l.nats? "rshape"; let axes ← l.nats? "axes"; let shifts ← boolList? l "shifts"
  let x0 ← l.rats? "x0"; let s ← l.rats? "s"
  let fftw ← (match impl with | "np" => some false | "fftw" => some true | _ => none)
  let last ← axes.getLast?
  if shifts.length ≠ axes.length || x0.length ≠ rshape.length || s.length ≠ rshape.length then none
  if s.any (· = 0) then none
  if !checkShape rshape axes (Wavelet.prod rshape) then none
  let shiftOf (a : Nat) : Bool := ((axes.zip shifts).lookup a).getD true
  let hcOf (a : Nat) : Bool := hc && a == last
  let grid (a : Nat) : Grid := recipGrid (rshape.getD a 1) (shiftOf a) (hcOf a)
  let c (a j : Nat) : Rat := (grid a).point j
  let t (a : Nat) : Rat := x0.getD a 0 / s.getD a 1
  let amp (a j : Nat) : CF :=
    let n := rshape.getD a 1
    CF.ofReal (kernelAmp 1 (s.getD a 1) ((interpFreqs n (grid a).shape (shiftOf a)).point j))
  let fshape := rshape.zipIdx.map fun (n, a) => if hcOf a then hcLen n else n
  let status := if inv then ftInverseStatus hc shifts
                else ftForwardStatus fftw realdom hc shifts
  match status with
  | some e => some e
  | none =>
    let x ← l.get? "x" >>= parseList parseCF
    if x.length ≠ Wavelet.prod (if inv then fshape else rshape) then none
    let out (sh : List Nat) (y : Array CF) :=
      s!"ok shape={showNatList sh} y={showList CF.str y.toList}"
    let re : CF → CF := fun z => ⟨z.re, 0⟩
    -- `variant=sep` (non-half-complex only): the fibre-wise composition of the one-axis maps
    -- `ftForwardAxis` / `ftInverseAxis` the theorems are about; default: the staged definition
    let sep := l.get? "variant" == some "sep"
    if sep && hc then none
    let xa := x.toArray
    let r : Option (List Nat × Array CF) :=
      if inv then
        if sep then
          (ftInverseSepNd floatRoots ePi amp c t plus rshape axes shifts xa).map
            fun (sh, y) => (sh, if realdom then y.map re else y)
        else ftInverseNd floatRoots ePi CF.conj re amp c t fftw plus hc realdom rshape axes shifts xa
      else
        if sep then ftForwardSepNd floatRoots ePi amp c t plus rshape axes shifts xa
        else ftForwardNd floatRoots ePi re amp c t fftw plus hc rshape axes shifts xa
    r.map fun (sh, y) => out sh y

/-- `padmode name= zero=0|1` -/
def doPad (l : Line) : Option String := do
  let name ← l.get? "name"; let z ← l.bool? "zero"
  match padMode Gen.WaveletPad.padTable name z with
  | .ok v => some s!"ok {v}"
  | .error e => some e

/-- shapes on the wire: `4x4` ; a level: `ad:2x2|da:2x2|dd:2x2` ; levels separated by `/` -/
def parseShape (s : String) : Option (List Nat) := (s.splitOn "x").mapM String.toNat?

def parseLevel (s : String) : Option (List (String × List Nat)) :=
  (s.splitOn "|").mapM fun kv =>
    match kv.splitOn ":" with
    | [k, v] => (parseShape v).map fun sh => (k, sh)
    | _ => none

/-- `ravel a=2x2 d=ad:2x2|da:2x2|dd:2x2/ad:4x4|…`: slices of `precompute_raveled_slices` -/
def doRavel (l : Line) : Option String := do
  let a ← l.get? "a" >>= parseShape
  let d ← match l.get? "d" with
    | some "-" => some []
    | some ds => (ds.splitOn "/").mapM parseLevel
    | none => none
  let sl := ravelSlices a d
  some ("ok " ++ " ".intercalate (sl.map fun (k, a, b) => s!"{k}:{a}:{b}"))

/-- `unravel a= d= x=`: cut a flat coefficient vector at ODL's precomputed slices -/
def doUnravel (l : Line) : Option String := do
  let a ← l.get? "a" >>= parseShape
  let d ← match l.get? "d" with
    | some "-" => some []
    | some ds => (ds.splitOn "/").mapM parseLevel
    | none => none
  let x ← l.rats? "x"
  let sl := (ravelSlices a d).map (·.2)
  some s!"ok blocks={showRatMat (unravel sl x)}"

/-- `scales a= d=`: `WaveletTransformBase.scales()` as a flat list of level indices -/
def doScales (l : Line) : Option String := do
  let a ← l.get? "a" >>= parseShape
  let d ← match l.get? "d" with
    | some "-" => some []
    | some ds => (ds.splitOn "/").mapM parseLevel
    | none => none
  some s!"ok s={showNatList (scalesOf a d)}"

/-- `crop recon=5,4 intended=4,4` -/
def doCrop (l : Line) : Option String := do
  let r ← l.nats? "recon"; let n ← l.nats? "intended"
  if r.length ≠ n.length then none
  match cropShape r n with
  | .ok k => some s!"ok keep={showNatList k}"
  | .error e => some e

/-- `adjweights const= shape= fl= fr=`: the pointwise inner-product weights (C order);
`fl`, `fr`: left/right boundary cell fractions per axis -/
def doAdjWeights (l : Line) : Option String := do
  let c ← l.rat? "const"; let shape ← l.nats? "shape"
  let fl ← l.rats? "fl"; let fr ← l.rats? "fr"
  if fl.length ≠ shape.length || fr.length ≠ shape.length || shape.any (· = 0) then none
  let total := Wavelet.prod shape
  let ws := (List.range total).map fun i => innerWeight c (fl.zip fr) shape (unravelIndex shape i)
  some s!"ok w={showRatList ws}"

/-- `adjapply w= inv=`: `WaveletTransform.adjoint` from the weights and the inverse's values -/
def doAdjApply (l : Line) : Option String := do
  let w ← l.rats? "w"; let inv ← l.rats? "inv"
  if w.length ≠ inv.length || w.any (· = 0) then none
  let wa := w.toArray; let ia := inv.toArray
  some s!"ok r={showRatList ((List.range w.length).map (adjointForward (fun i => wa.getD i 1) (fun i => ia.getD i 0)))}"

/-- `reconok n= r=`: is `r` an admissible `waverecn` length for an axis of length `n` -/
def doReconOk (l : Line) : Option String := do
  let n ← l.nat? "n"; let r ← l.nat? "r"
  some s!"ok {if reconLenOk n r then 1 else 0}"

/-- `dftrange n= cplx= hc=`: last-axis length of the range the constructor builds and of the
array the transform produces -/
def doDftRange (l : Line) : Option String := do
  let n ← l.nat? "n"; let c ← l.bool? "cplx"; let hc ← l.bool? "hc"
  if n = 0 then none
  some s!"ok range={dftRangeLen n c hc} out={dftOutLen n c hc}"

/-- `plan fresh= destroys= inplace=`: does the data survive FFTW planning in `pyfftw_call` -/
def doPlan (l : Line) : Option String := do
  let f ← l.bool? "fresh"; let d ← l.bool? "destroys"; let ip ← l.bool? "inplace"
  some s!"ok survives={if dataSurvivesPlanning f d ip then 1 else 0}"

/-- `pyfftwcall backward= ni= n= x=`: `pyfftw_call(..., normalise_idft=ni)` on one axis, exact
(`n ∈ {1, 2, 4}`) -/
def doPyfftwCall (l : Line) : Option String := do
  let bw ← l.bool? "backward"; let ni ← l.bool? "ni"; let n ← l.nat? "n"
  let x ← l.get? "x" >>= parseCList
  if x.length ≠ n || n = 0 then none
  let (w, winv) ← exactRoots n
  let xa := x.toArray
  let y := (List.range n).map (pyfftwCall bw ni w winv n (fun j => xa.getD j 0))
  some s!"ok shape={n} y={showCList y}"

/-- `planreuse given=none|0|1 inplace=`: in-place-ness of the plan `pyfftw_call` executes -/
def doPlanReuse (l : Line) : Option String := do
  let g ← match l.get? "given" with
    | some "none" => some none
    | some "0" => some (some false)
    | some "1" => some (some true)
    | _ => none
  let ip ← l.bool? "inplace"
  some s!"ok executed={if executedPlanInPlace g ip then 1 else 0}"

/-- `normaxes ndim= axes=none|i,j,…` -/
def doNormAxes (l : Line) : Option String := do
  let nd ← l.nat? "ndim"
  let ax ← match l.get? "axes" with
    | some "none" => some none
    | some v => (parseIntList v).map some
    | none => none
  match normAxes nd ax with
  | some r => some s!"ok {showNatList r}"
  | none => some "err:value"

/-- `adjexposed orth= weights=` -/
def doAdjExposed (l : Line) : Option String := do
  let o ← l.bool? "orth"; let w ← l.bool? "weights"
  some s!"ok {if adjointExposed o w then 1 else 0}"

/-- `ctor kind=dft|ft fwdplus= hc= lastshift=`: constructor accepts / rejects -/
def doCtor (l : Line) : Option String := do
  let k ← l.get? "kind"; let p ← l.bool? "fwdplus"; let hc ← l.bool? "hc"
  let st ← match k with
    | "dft" => some (dftCtorStatus p hc)
    | "ft" => (l.bool? "lastshift").map (ftCtorStatus p hc)
    | _ => none
  some (st.getD "ok")

def handle (l : Line) : Option String :=
  match l.op with
  | "recip" => doRecip l
  | "real" => doReal l
  | "pre" => doPre l
  | "freqs" => doFreqs l
  | "dft" => doDft l
  | "dftadj" => doDftAdj l
  | "dftrangector" => doDftRangeCtor l
  | "dftrange" => doDftRange l
  | "plan" => doPlan l
  | "ctor" => doCtor l
  | "normaxes" => doNormAxes l
  | "adjexposed" => doAdjExposed l
  | "planreuse" => doPlanReuse l
  | "pyfftwcall" => doPyfftwCall l
  | "ft" => doFt l
  | "padmode" => doPad l
  | "ravel" => doRavel l
  | "unravel" => doUnravel l
  | "scales" => doScales l
  | "crop" => doCrop l
  | "adjweights" => doAdjWeights l
  | "adjapply" => doAdjApply l
  | "reconok" => doReconOk l
  | _ => none

def main : IO Unit := driverLoop handle
