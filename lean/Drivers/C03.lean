import OdlModel.Common
import OdlModel.Model.ProxProg
import OdlModel.Model.ProxFloat
import OdlModel.Model.Call
open OdlModel OdlModel.Prox OdlModel.ProxFloat OdlModel.Call

/-! Driver for C03: runs the call-protocol model of `Model/Call.lean` at `K = Float`.
* `dispatch …` : `Operator.__call__` + signature dispatch + default bridges on a synthetic leaf;
* `tree …`     : an expression tree over modelled leaves, out-of-place / in-place / aliased. -/

def showErr : Err → String
  | .domain => "err:domain" | .range => "err:range" | .type => "err:type" | .value => "err:value"

def parseVecBits (s : String) : Option (Array Float) :=
  if s = "-" || s = "" then some #[] else ((s.splitOn "|").mapM parseBits).map (·.toArray)

def vecOf (a : Array Float) : Vec Float := fun i => a.getD i nanF

/-- `dispatch sig=oop|ip|dual ret=none|out|other raw=0|1 fn=0|1 x=in|cast|bad out=none|in|foreign
n=N xv=… yv=…` : the synthetic leaf computes `2·x + 1`. Buffer 0 = x (when `x=in`), 1 = y.
Answers `err:KIND` or `ok isout=0|1 val=… x=… y=…`. -/
def doDispatch (l : Line) : Option String := do
  let sg ← match ← l.get? "sig" with
    | "oop" => some Sig.oop | "ip" => some Sig.ip | "dual" => some Sig.dual | _ => none
  let ret ← match ← l.get? "ret" with
    | "none" => some Ret.none | "out" => some Ret.out | "other" => some Ret.other | _ => none
  let raw ← l.bool? "raw"
  let fn ← l.bool? "fn"
  let n ← l.nat? "n"
  let xv ← l.fs? "xv"
  let yv ← l.fs? "yv"
  let xa ← match ← l.get? "x" with
    | "in" => some (XArg.inDomain 0) | "cast" => some (XArg.castable (vecOf xv))
    | "bad" => some XArg.bad | _ => none
  let oa ← match ← l.get? "out" with
    | "none" => some OArg.none | "in" => some (OArg.inRange 1) | "foreign" => some OArg.foreign
    | _ => none
  let junk := (l.bool? "junk").getD false
  let leaf := synthLeaf sg ret raw fn junk (fun v i => 2.0 * v i + 1.0)
  let s0 : St Float := { mem := fun b => if b = 0 then vecOf xv else if b = 1 then vecOf yv
                                          else fun _ => nanF, next := 2 }
  let dump (s : St Float) (b : Nat) := showList showBits ((List.range n).map (s.mem b))
  match call (fun _ _ => nanF) (.leaf leaf) xa oa s0 with
  | .err e _ => some (showErr e)
  | .ok r s => some s!"ok isout={if r = 1 then 1 else 0} val={dump s r} x={dump s 0} y={dump s 1}"

/-- Context for leaves of a tree line: program parameters and closed-over data. -/
structure TreeCtx where
  n : Nat
  fns : Fns Float
  par : Par Float
  data : Nat → Vec Float

/-- Prefix-notation tree, tokens separated by `,`:
`S` sum, `C` comp, `P` pwprod (2 children); `V:vec` vecsum, `l:c` lscal, `r:c` rscal,
`lv:vec` lvec, `rv:vec` rvec, `fl:vec` FunctionalLeftVectorMult (1 child); leaves `scal:c`,
`const:vec`, `mult:vec`, `pow:p`, `zero`, `modsq`, `accum:c` (protocol-abiding, NOT alias-safe synthetic leaf), `real` (RealPart on a real space: returns
its argument), `inner:vec` (InnerProductOperator, a functional), `fmult:vec` (MultiplyOperator
with a field domain), `prox:ID:FLAGS`. Vectors are `|`-separated bit patterns. -/
partial def parseTree (cx : TreeCtx) : List String → Option (Op Float × List String)
  | [] => none
  | tok :: rest =>
    let parts := tok.splitOn ":"
    let two (mk : Op Float → Op Float → Op Float) := do
      let (a, r1) ← parseTree cx rest
      let (b, r2) ← parseTree cx r1
      some (mk a b, r2)
    let one (mk : Op Float → Op Float) := do
      let (a, r1) ← parseTree cx rest
      some (mk a, r1)
    match parts with
    | ["S"] => two .sum
    | ["C"] => two .comp
    | ["P"] => two .pwprod
    | ["V", v] => do let a ← parseVecBits v; one (.vecsum · (vecOf a))
    | ["l", c] => do let c ← parseBits c; one (.lscal · c)
    | ["r", c] => do let c ← parseBits c; one (.rscal · c)
    | ["lv", v] => do let a ← parseVecBits v; one (.lvec · (vecOf a))
    | ["rv", v] => do let a ← parseVecBits v; one (.rvec · (vecOf a))
    | ["fl", v] => do let a ← parseVecBits v; one (.flvm · (vecOf a))
    | ["real"] =>
        some (.leaf { sig := .oop, fn := false, raw := false, phi := id, oop := fun x s => (x, s),
                      ip := fun _ _ s => (.none, s) }, rest)
    | ["inner", v] => do
        let a ← parseVecBits v
        some (.leaf (funcLeaf fun x => sumN cx.n (fun i => x i * (vecOf a) i)), rest)
    | ["fmult", v] => do let a ← parseVecBits v; some (.leaf (scalarMultLeaf (vecOf a)), rest)
    | ["scal", c] => do let c ← parseBits c; some (.leaf (scalingLeaf c), rest)
    | ["const", v] => do let a ← parseVecBits v; some (.leaf (constLeaf (vecOf a)), rest)
    | ["mult", v] => do let a ← parseVecBits v; some (.leaf (multLeaf (vecOf a)), rest)
    | ["pow", p] => do
        let p ← parseBits p
        some (.leaf (powLeaf (floatFns 1 1 1.0 p).pow), rest)
    | ["accum", c] => do let c ← parseBits c; some (.leaf (accumLeaf c), rest)
    | ["zero"] => some (.leaf zeroLeaf, rest)
    | ["modsq"] => some (.leaf modSqLeaf, rest)
    | ["prox", name, flags] => do
        let id ← parseId name flags
        -- proximal_convex_conj_l1 closes over lam * (1 - eps)
        let par := if name = "ccL1" then { cx.par with lam := cx.par.lam * (1.0 - cx.par.eps) }
                   else cx.par
        some (.leaf (Leaf.ofProg (fun _ _ => nanF) (prog cx.fns par id) cx.data), rest)
    | _ => none

/-- `tree mode=oop|ip|alias n=N t=TOKENS x=… y=… lam=… sigma=… gamma=… radius=… eps=… g=… sig=…
lo=… up=…` : buffer 0 = x, buffer 1 = y. Answers `ok val=… x=…` (`val` = content of the
returned object, `x` = content of the input afterwards) or `err:KIND`. -/
def doTree (l : Line) : Option String := do
  let mode ← l.get? "mode"
  let n ← l.nat? "n"
  let x ← l.fs? "x"
  let y ← l.fs? "y"
  let par : Par Float := {
    lam := ← l.f? "lam", sigma := ← l.f? "sigma", gamma := ← l.f? "gamma",
    radius := ← l.f? "radius", eps := ← l.f? "eps", cw := 1.0, a := 1.0, b := 1.0 }
  let g ← l.fs? "g"
  let sig ← l.fs? "sig"
  let lo ← l.fs? "lo"
  let up ← l.fs? "up"
  let data : Nat → Vec Float := fun b =>
    match b with
    | 2 => vecOf g | 3 => vecOf sig | 4 => vecOf lo | 5 => vecOf up | _ => fun _ => nanF
  let cx : TreeCtx := { n := n, fns := floatFns n 1 1.0 2.0, par := par, data := data }
  let toks := (← l.get? "t").splitOn ","
  let (e, rest) ← parseTree cx toks
  if !rest.isEmpty then none
  -- round 5: `wrap=rscal|comp|sum c=… t2=TOKENS tv=…` : the wrapper built WITH the user temporary
  -- (buffer 2, content `tv`) around the tree(s); answers also what the temporary holds afterwards
  if let some w := l.get? "wrap" then
    let c := (l.f? "c").getD nanF
    let tv ← l.fs? "tv"
    let e2 ← match l.get? "t2" with
      | none => some e
      | some t => do
          let (b, r) ← parseTree cx (t.splitOn ",")
          if r.isEmpty then some b else none
    let jk : Nat → Vec Float := fun _ _ => nanF
    let s0 : St Float := { mem := fun b => if b = 0 then vecOf x else if b = 1 then vecOf y else
                                            if b = 2 then vecOf tv else fun _ => nanF, next := 3 }
    let res ← match w, mode with
      | "rscal", "oop" => some (callO jk (.rscal (rscalCtor e c).1 (rscalCtor e c).2) 0 s0)
      | "comp", "oop" => some (callO jk (.comp e e2) 0 s0)
      | "sum", "oop" => some (callO jk (.sum e e2) 0 s0)
      | "rscal", "ip" => some (rscalTmpI jk (rscalCtor e c).1 (rscalCtor e c).2 2 0 1 s0)
      | "comp", "ip" => some (compTmpI jk e e2 2 0 1 s0)
      | "sum", "ip" => some (sumTmpI jk e e2 2 0 1 s0)
      | _, _ => none
    let dump (s : St Float) (b : Nat) := showList showBits ((List.range n).map (s.mem b))
    return match res with
      | .err er _ => showErr er
      | .ok r s => s!"ok ret={r} val={dump s r} x={dump s 0} tmp={dump s 2}"
  let s0 : St Float := { mem := fun b => if b = 0 then vecOf x else if b = 1 then vecOf y
                                          else fun _ => nanF, next := 2 }
  let jk : Nat → Vec Float := fun _ _ => nanF
  let res ← match mode with
    | "oop" => some (call jk e (.inDomain 0) .none s0)
    | "ip" => some (call jk e (.inDomain 0) (.inRange 1) s0)
    | "alias" => some (call jk e (.inDomain 0) (.inRange 0) s0)
    | _ => none
  let dump (s : St Float) (b : Nat) := showList showBits ((List.range n).map (s.mem b))
  match res with
  | .err e _ => some (showErr e)
  | .ok r s => some s!"ok val={dump s r} x={dump s 0}"

def parseEntries (cx : TreeCtx) (s : String) : Option (List (Entry Float)) :=
  if s = "-" then some [] else
  (s.splitOn "@").mapM fun t =>
    match t.splitOn "~" with
    | [r, c, toks] => do
        let r ← r.toNat?
        let c ← c.toNat?
        let (e, rest) ← parseTree cx (toks.splitOn ",")
        if rest.isEmpty then some ⟨r, c, e⟩ else none
    | _ => none

/-- `TOKENS@TOKENS@…` : the operand list of a Broadcast / Reduction / Diagonal operator. -/
def parseOps (cx : TreeCtx) (s : String) : Option (List (Op Float)) :=
  if s = "-" then some [] else
  (s.splitOn "@").mapM fun t => do
    let (e, rest) ← parseTree cx (t.splitOn ",")
    if rest.isEmpty then some e else none

def parseVecs (s : String) : Option (Array (Array Float)) :=
  if s = "-" then some #[] else ((s.splitOn ";").mapM fun t => (parseList parseBits t).map (·.toArray)).map (·.toArray)

/-- `pso kind=pso|bcast|red|diag|proj|projl|projadj|bcastw|redw|diagw mode=oop|ip|alias m=M nc=N n=LEN idx=I entries=r~c~TOKENS@…
x=v;v;… y=v;v;… <tree context keys>` : the product-space classes. Input components are the
buffers `0 … nc-1`, output components `nc … nc+m-1` (`alias`: the input components). Answers
`ok vals=v;v;… x=v;v;…`. -/
def doPso (l : Line) : Option String := do
  let kind ← l.get? "kind"
  let mode ← l.get? "mode"
  let m ← l.nat? "m"
  let nc ← l.nat? "nc"
  let n ← l.nat? "n"
  let idx := (l.nat? "idx").getD 0
  let xs ← l.get? "x" >>= parseVecs
  let ys ← l.get? "y" >>= parseVecs
  let par : Par Float := {
    lam := ← l.f? "lam", sigma := ← l.f? "sigma", gamma := ← l.f? "gamma",
    radius := ← l.f? "radius", eps := ← l.f? "eps", cw := 1.0, a := 1.0, b := 1.0 }
  let g ← l.fs? "g"
  let sig ← l.fs? "sig"
  let lo ← l.fs? "lo"
  let up ← l.fs? "up"
  let data : Nat → Vec Float := fun b =>
    match b with
    | 2 => vecOf g | 3 => vecOf sig | 4 => vecOf lo | 5 => vecOf up | _ => fun _ => nanF
  let cx : TreeCtx := { n := n, fns := floatFns n 1 1.0 2.0, par := par, data := data }
  let entries ← l.get? "entries" >>= parseEntries cx
  -- round 4: kind=bcastw|redw|diagw get the OPERAND list; blocks and wrapping come from the model
  let ops ← parseOps cx ((l.get? "ops").getD "-")
  -- round 4: kind=projl, ComponentProjection with the LIST index idxs=i,j,…
  let idxs ← match l.get? "idxs" with
    | none => some []
    | some t => (t.splitOn ",").mapM String.toNat?
  let s0 : St Float := {
    mem := fun b => if b < nc then vecOf (xs.getD b #[]) else
                    if b < nc + m then vecOf (ys.getD (b - nc) #[]) else fun _ => nanF,
    next := nc + m }
  let jk : Nat → Vec Float := fun _ _ => nanF
  let x : Nat → Nat := fun j => j
  let yIP : Nat → Nat := fun i => nc + i
  let dump (s : St Float) (b : Nat) := showList showBits ((List.range n).map (s.mem b))
  let dumpAll (s : St Float) (f : Nat → Nat) (k : Nat) := ";".intercalate ((List.range k).map fun i => dump s (f i))
  let finish (s : St Float) (out : Nat → Nat) (k : Nat) : Option String :=
    some s!"ok vals={dumpAll s out k} x={dumpAll s x nc}"
  match kind, mode with
  | "proj", "oop" => let (r, s) := compProjO idx x s0; finish s (fun _ => r) 1
  | "proj", "ip" => finish (compProjI idx x nc s0) (fun _ => nc) 1
  | "projadj", "oop" => finish (compProjAdjO m idx 0 s0) (fun i => s0.next + i) m
  | "projadj", "ip" => finish (compProjAdjI m idx 0 yIP s0) yIP m
  | "projl", "oop" => finish (compProjListO idxs x s0) (fun k => s0.next + k) idxs.length
  | "projl", "ip" => finish (compProjListI idxs 0 x yIP s0) yIP idxs.length
  | "bcastw", "oop" =>
      match broadcastO jk ops 0 s0 with
      | .err e _ => some (showErr e)
      | .ok _ s => finish s (fun i => s0.next + i) m
  | "bcastw", "ip" =>
      match broadcastI jk ops 0 yIP s0 with
      | .err e _ => some (showErr e)
      | .ok _ s => finish s yIP m
  | "redw", "oop" =>
      match reductionO jk ops x s0 with
      | .err e _ => some (showErr e)
      | .ok r s => (finish s (fun _ => r) 1).map (· ++ s!" ret={r}")
  | "redw", "ip" =>
      match reductionI jk ops x nc s0 with
      | .err e _ => some (showErr e)
      | .ok r s => (finish s (fun _ => r) 1).map (· ++ s!" ret={r}")
  | "diagw", "oop" =>
      match diagonalO jk ops x s0 with
      | .err e _ => some (showErr e)
      | .ok _ s => finish s (fun i => s0.next + i) m
  | "diagw", "ip" =>
      match diagonalI jk ops x yIP s0 with
      | .err e _ => some (showErr e)
      | .ok _ s => finish s yIP m
  | "diagw", "alias" =>
      match diagonalI jk ops x x s0 with
      | .err e _ => some (showErr e)
      | .ok _ s => finish s x m
  | _, "oop" =>
      match psoO jk m entries x s0 with
      | .err e _ => some (showErr e)
      | .ok _ s => finish s (fun i => s0.next + i) m
  | _, "ip" =>
      match psoI jk m entries x yIP s0 with
      | .err e _ => some (showErr e)
      | .ok _ s => finish s yIP m
  | _, "alias" =>
      match psoI jk m entries x x s0 with
      | .err e _ => some (showErr e)
      | .ok _ s => finish s x m
  | _, _ => none

/-- `leaf kind=zerodiff|multc|imag|cmod|norm|dist|powf|multf mode=oop|ip|alias n=N m=M x=… y=…
c=… v=…` (round 4): one `default_ops.py` class as a model leaf under the public call. Buffer 0 = x
(`n` entries; a field-domain operator has its scalar at index 0), buffer 1 = y (`m` entries; for
a functional `mode=ip` stands for `out=<a float>`: in the range, rejected with TypeError).
Answers `ok isout=0|1 new=0|1 val=… x=… y=…` (`new`: the returned object did not exist before)
or `err:KIND`. -/
def doLeaf (l : Line) : Option String := do
  let kind ← l.get? "kind"
  let mode ← l.get? "mode"
  let n ← l.nat? "n"
  let m ← l.nat? "m"
  let x ← l.fs? "x"
  let y ← l.fs? "y"
  let c := (l.f? "c").getD nanF
  let v := vecOf ((l.fs? "v").getD #[])
  let jk : Nat → Vec Float := fun _ _ => nanF
  let leaf : Leaf Float ← match kind with
    | "zerodiff" => some zeroDiffLeaf
    | "multc" => some (multScalarLeaf (· == 0.0) jk c)
    | "imag" => some imagLeaf
    | "cmod" => some (cmodLeaf Float.sqrt)
    | "norm" => some (funcLeaf fun x => Float.sqrt (sumN n fun i => x i * x i))
    | "dist" => some (funcLeaf fun x => Float.sqrt (sumN n fun i => (v i - x i) * (v i - x i)))
    | "powf" => some (funcLeaf fun x => (floatFns 1 1 1.0 c).pow (x 0))
    | "multf" => some (funcLeaf fun x => x 0 * c)
    | _ => none
  let s0 : St Float := { mem := fun b => if b = 0 then vecOf x else if b = 1 then vecOf y
                                          else fun _ => nanF, next := 2 }
  let res ← match mode with
    | "oop" => some (call jk (.leaf leaf) (.inDomain 0) .none s0)
    | "ip" => some (call jk (.leaf leaf) (.inDomain 0) (.inRange 1) s0)
    | "alias" => some (call jk (.leaf leaf) (.inDomain 0) (.inRange 0) s0)
    | _ => none
  let dump (s : St Float) (b k : Nat) := showList showBits ((List.range k).map (s.mem b))
  match res with
  | .err e _ => some (showErr e)
  | .ok r s =>
      let isout := if mode = "ip" then r == 1 else if mode = "alias" then r == 0 else false
      some s!"ok isout={if isout then 1 else 0} new={if r ≥ 2 then 1 else 0} val={dump s r m} x={dump s 0 n} y={dump s 1 m}"

/-- `lincomb mode=oop|ip|alias0|alias1 n=N a=… b=… x0=… x1=… y=…` (round 4):
`LinCombOperator(X, a, b)` on the tuple (buffer 0, buffer 1); `out` = buffer 2 (`ip`) or the
component object itself (`alias0` / `alias1`). Answers `ok ret=B val=… x0=… x1=…`. -/
def doLinComb (l : Line) : Option String := do
  let mode ← l.get? "mode"
  let n ← l.nat? "n"
  let a ← l.f? "a"
  let b ← l.f? "b"
  let x0 ← l.fs? "x0"
  let x1 ← l.fs? "x1"
  let y ← l.fs? "y"
  let s0 : St Float := { mem := fun k => if k = 0 then vecOf x0 else if k = 1 then vecOf x1 else
                                          if k = 2 then vecOf y else fun _ => nanF, next := 3 }
  let x : Nat → Nat := fun j => j
  let dump (s : St Float) (k : Nat) := showList showBits ((List.range n).map (s.mem k))
  let (r, s) ← match mode with
    | "oop" => some (linCombO (· == 0.0) (fun _ _ => nanF) a b x s0)
    | "ip" => some (2, linCombI (· == 0.0) a b x 2 s0)
    | "alias0" => some (0, linCombI (· == 0.0) a b x 0 s0)
    | "alias1" => some (1, linCombI (· == 0.0) a b x 1 s0)
    | _ => none
  some s!"ok ret={r} val={dump s r} x0={dump s 0} x1={dump s 1}"

def handle (l : Line) : Option String :=
  match l.op with
  | "dispatch" => doDispatch l
  | "tree" => doTree l
  | "pso" => doPso l
  | "leaf" => doLeaf l
  | "lincomb" => doLinComb l
  | _ => none

def main : IO Unit := driverLoop handle
