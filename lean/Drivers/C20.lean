import OdlModel.Common
import OdlModel.Model.Spaces
import OdlModel.Gen.DTypeTables
open OdlModel OdlModel.Spaces

instance : Inhabited Obj := ⟨.leaf .emptySet⟩
instance : Inhabited SHKey := ⟨.plain []⟩

/-! Wire syntax of descriptors: terms `name(arg,arg,…)` / atoms, no blanks.
`L(a,b,c)` is a list, floats are `p/q`, `-0`, `inf`, `-inf`. -/

inductive Term
  | atom (s : String)
  | app (f : String) (args : List Term)
  deriving Repr, Inhabited

namespace Term

private def isStop (c : Char) : Bool := c = '(' || c = ')' || c = ','

mutual
partial def parseTerm (cs : List Char) : Option (Term × List Char) :=
  let name := cs.takeWhile (fun c => !isStop c)
  let rest := cs.dropWhile (fun c => !isStop c)
  match rest with
  | '(' :: ')' :: rest' => some (.app (String.ofList name) [], rest')
  | '(' :: rest' => do
      let (args, rest'') ← parseArgs rest' []
      some (.app (String.ofList name) args, rest'')
  | _ => if name.isEmpty then none else some (.atom (String.ofList name), rest)
partial def parseArgs (cs : List Char) (acc : List Term) : Option (List Term × List Char) := do
  let (t, rest) ← parseTerm cs
  match rest with
  | ',' :: rest' => parseArgs rest' (t :: acc)
  | ')' :: rest' => some ((t :: acc).reverse, rest')
  | _ => none
end

def parse (s : String) : Option Term :=
  match parseTerm s.toList with
  | some (t, []) => some t
  | _ => none

def list? : Term → Option (List Term)
  | .app "L" args => some args
  | _ => none

def nat? : Term → Option Nat
  | .atom s => s.toNat?
  | _ => none

def fl? : Term → Option Fl
  | .atom "-0" => some .negZero
  | .atom "inf" => some .posInf
  | .atom "-inf" => some .negInf
  | .atom s => (parseRat s).map Fl.fin
  | _ => none

def fls? (t : Term) : Option (List Fl) := do (← t.list?).mapM fl?
def nats? (t : Term) : Option (List Nat) := do (← t.list?).mapM nat?

def dtype? : Term → Option DType
  | .atom "bool" => some .bool | .atom "int8" => some .int8 | .atom "int16" => some .int16
  | .atom "int32" => some .int32 | .atom "int64" => some .int64 | .atom "uint8" => some .uint8
  | .atom "uint16" => some .uint16 | .atom "uint32" => some .uint32
  | .atom "uint64" => some .uint64 | .atom "float16" => some .float16
  | .atom "float32" => some .float32 | .atom "float64" => some .float64
  | .atom "float128" => some .float128 | .atom "complex64" => some .complex64
  | .atom "complex128" => some .complex128 | .atom "complex256" => some .complex256
  | .atom s =>
      if s.startsWith "bytes" then (s.drop 5).toNat?.map DType.bytes
      else if s.startsWith "str" then (s.drop 3).toNat?.map DType.str
      else none
  | _ => none

def wcls? : Term → Option WCls
  | .atom "np" => some .np | .atom "ps" => some .ps | _ => none

def weighting? : Term → Option Weighting
  | .app "wc" [c, v, e] => do some (.const (← wcls? c) (← fl? v) (← fl? e))
  | .app "wa" [c, i, _, e] => do some (.array (← wcls? c) (← nat? i) (← fl? e))
  | .app "wi" [c, f] => do some (.inner (← wcls? c) (← nat? f))
  | .app "wn" [c, f] => do some (.norm (← wcls? c) (← nat? f))
  | .app "wd" [c, f] => do some (.dist (← wcls? c) (← nat? f))
  | _ => none

def interval? : Term → Option IntervalProd
  | .app "ip" [lo, hi] => do some ⟨← fls? lo, ← fls? hi⟩
  | _ => none

def grid? : Term → Option Grid
  | .app "gr" [vs] => do some ⟨← (← vs.list?).mapM fls?⟩
  | _ => none

def partition? : Term → Option Partition
  | .app "pt" [s, g] => do some ⟨← interval? s, ← grid? g⟩
  | _ => none

def tspace? : Term → Option TSpace
  | .app "ts" [sh, d, w] => do some ⟨← nats? sh, ← dtype? d, ← weighting? w⟩
  | _ => none

def axis? : Term → Option Axis
  | .app "ax" [lo, hi, pts] => do some ⟨← fl? lo, ← fl? hi, ← fls? pts⟩
  | _ => none

def discr? : Term → Option Discr
  | .app "ds" [axes, d, w] => do
      some ⟨← (← axes.list?).mapM axis?, ← dtype? d, ← weighting? w, []⟩
  | _ => none

def fld? : Term → Option Fld
  | .atom "real" => some .real | .atom "complex" => some .complex | .atom "none" => some .none
  | _ => none

partial def space? : Term → Option Space
  | t@(.app "ts" _) => do some (.tensor (← tspace? t))
  | t@(.app "ds" _) => do some (.discr (← discr? t))
  | .app "ps" [parts, w, f] => do
      some (.prod (← (← parts.list?).mapM space?) (← weighting? w) (← fld? f))
  | _ => none

def atom? : Term → Option Atom
  | .app "i" [.atom s] => do some (.int (← s.toInt?))
  | .app "s" [.atom s] => some (.str s)
  | _ => none

def leaf? : Term → Option Leaf
  | .atom "empty" => some .emptySet
  | .atom "universal" => some .universalSet
  | .app "strings" [n] => do some (.strings (← nat? n))
  | .atom "complex" => some .complexNumbers
  | .atom "real" => some .realNumbers
  | .atom "integers" => some .integers
  | t@(.app "ip" _) => do some (.interval (← interval? t))
  | t@(.app "gr" _) => do some (.grid (← grid? t))
  | .app "fin" [els] => do some (.finite (← (← els.list?).mapM atom?))
  | t => do some (.space (← space? t))

def obj? : Term → Option Obj
  | .app "cart" [ms] => do some (.cartesian (← (← ms.list?).mapM leaf?))
  | .app "union" [ms] => do some (.union (← (← ms.list?).mapM leaf?))
  | .app "inter" [ms] => do some (.inter (← (← ms.list?).mapM leaf?))
  | t@(.app "pt" _) => do some (.partition (← partition? t))
  | t@(.app "wc" _) | t@(.app "wa" _) | t@(.app "wi" _) | t@(.app "wn" _) | t@(.app "wd" _) => do
      some (.weighting (← weighting? t))
  | t => do some (.leaf (← leaf? t))

/-- all `(array id, digest)` pairs occurring in a term -/
partial def heapPairs : Term → List (Nat × String)
  | .app "wa" [_, .atom i, .atom dg, _] => match i.toNat? with
      | some n => [(n, dg)]
      | none => []
  | .app _ args => args.flatMap heapPairs
  | .atom _ => []

end Term

/-! printing descriptors back in the wire syntax -/

def showFl : Fl → String
  | .fin r => showRat r
  | .negZero => "-0"
  | .posInf => "inf"
  | .negInf => "-inf"

def showL (items : List String) : String := "L(" ++ ",".intercalate items ++ ")"

def showDType (d : DType) : String :=
  match d with
  | .bool => "bool" | .int8 => "int8" | .int16 => "int16" | .int32 => "int32" | .int64 => "int64"
  | .uint8 => "uint8" | .uint16 => "uint16" | .uint32 => "uint32" | .uint64 => "uint64"
  | .float16 => "float16" | .float32 => "float32" | .float64 => "float64"
  | .float128 => "float128" | .complex64 => "complex64" | .complex128 => "complex128"
  | .complex256 => "complex256" | .bytes w => s!"bytes{w}" | .str w => s!"str{w}"

def showCls : WCls → String | .np => "np" | .ps => "ps"

def showW : Weighting → String
  | .const c v e => s!"wc({showCls c},{showFl v},{showFl e})"
  | .array c i e => s!"wa({showCls c},{i},{showFl e})"
  | .inner c f => s!"wi({showCls c},{f})"
  | .norm c f => s!"wn({showCls c},{f})"
  | .dist c f => s!"wd({showCls c},{f})"

def showT (t : TSpace) : String :=
  s!"ts({showL (t.shape.map toString)},{showDType t.dtype},{showW t.w})"

def showD (d : Discr) : String :=
  let axes := d.axes.map fun a => s!"ax({showFl a.lo},{showFl a.hi},{showL (a.pts.map showFl)})"
  s!"ds({showL axes},{showDType d.dtype},{showW d.w})"

def showFld : Fld → String | .real => "real" | .complex => "complex" | .none => "none"

partial def showS : Space → String
  | .tensor t => showT t
  | .discr d => showD d
  | .prod l w f => s!"ps({showL (l.map showS)},{showW w},{showFld f})"

partial def showRes : Res → String
  | .same => "same"
  | .tensor dt sh v sm =>
      s!"T({showDType dt};{showL (sh.map toString)};{showL (v.map showRat)};{if sm then 1 else 0})"
  | .discr w r => s!"D({if w then 1 else 0};{showRes r})"
  | .prod sp rs => s!"P({if sp then 1 else 0};{showL (rs.map showRes)})"
  | .errValue => "errValue"
  | .errType => "errType"
  | .outside => "outside"

namespace Term

def rat? : Term → Option Rat
  | .atom s => parseRat s
  | _ => none

def bool? : Term → Option Bool
  | .atom "1" => some true | .atom "0" => some false | _ => none

partial def inp? : Term → Option Inp
  | .app "el" [sp, sh, dt, v] => do
      some (.elem (← space? sp) (← nats? sh) (← dtype? dt) (← (← v.list?).mapM rat?))
  | .app "ar" [nd, sh, dt, v] => do
      some (.arr (← bool? nd) (← nats? sh) (← dtype? dt) (← (← v.list?).mapM rat?))
  | .app "pe" [sp, ps] => do some (.pelem (← space? sp) (← (← ps.list?).mapM inp?))
  | .app "sq" [ps] => do some (.seq (← (← ps.list?).mapM inp?))
  | _ => none

def pidx? : Term → Option PIdx
  | .app "i" [n] => do some (.int (← nat? n))
  | .app "sl" [a, c, .atom st] => do some (.slice ⟨← nat? a, ← nat? c, ← st.toInt?⟩)
  | .app "li" [l] => do some (.list (← nats? l))
  | _ => none

end Term

def mkHeap (ps : List (Nat × String)) : Nat → String :=
  fun i => match ps.find? (·.1 = i) with
    | some p => p.2
    | none => ""

def outChar : Option Bool → Char
  | some true => 't' | some false => 'f' | none => 'e'

/-- `eqall objs=L(o1,…,on)`: answers `ok n=<n> eq=<n*n chars t/f/e, row-major: o_i.__eq__(o_j)>
hash=<n*n chars 1/0: hash keys equal>`. -/
def doEqAll (l : Line) : Option String := do
  let t ← Term.parse (← l.get? "objs")
  let ts ← t.list?
  let objs ← ts.mapM Term.obj?
  let heap := mkHeap (ts.flatMap Term.heapPairs)
  let arr := objs.toArray
  let keys := arr.map (Obj.hk heap)
  let n := arr.size
  let mut eqs : List Char := []
  let mut hs : List Char := []
  for i in [0:n] do
    for j in [0:n] do
      eqs := outChar (Obj.eqO arr[i]! arr[j]!) :: eqs
      hs := (if SHKey.eqv keys[i]! keys[j]! then '1' else '0') :: hs
  some s!"ok n={n} eq={String.ofList eqs.reverse} hash={String.ofList hs.reverse}"

/-- `contains S=<space> x=<space|nospace>`: answers `ok t|f`. -/
def doContains (l : Line) : Option String := do
  let S ← Term.space? (← Term.parse (← l.get? "S"))
  let xs ← l.get? "x"
  let X ← if xs = "nospace" then some none else (Term.space? (← Term.parse xs)).map some
  some s!"ok {outChar (some (S.contains X))}"

/-- `element S=<space> inp=<inp> forced=0|1` answers the canonical outcome of
`S.element(inp[, order='C'])`. -/
def doElement (l : Line) : Option String := do
  let S ← Term.space? (← Term.parse (← l.get? "S"))
  let inp ← Term.inp? (← Term.parse (← l.get? "inp"))
  let forced ← l.bool? "forced"
  let T := OdlModel.Gen.DTypes.tables
  let cast := (l.bool? "cast").getD true
  let r := match S, forced with
    | .tensor t, true => t.element T true inp
    | .discr d, true => d.element T true inp
    | s, _ => s.elementC T cast inp
  some s!"ok {showRes r}"

def showOS : Option Space → String
  | some s => "ok " ++ showS s
  | none => "raise"

/-- `derive op=… S=<space> …` answers `ok <descriptor of the derived space>` or `raise`. -/
def doDerive (l : Line) : Option String := do
  let S ← Term.space? (← Term.parse (← l.get? "S"))
  let T := OdlModel.Gen.DTypes.tables
  match ← l.get? "op" with
  | "astype" => do
      let dt ← Term.dtype? (.atom (← l.get? "dt"))
      let ok ← l.bool? "castok"
      match S with
      | .tensor t => some (showOS ((t.astype T dt ok).map .tensor))
      | .discr d => some (showOS ((d.astype T dt ok).map .discr))
      | s => some (showOS (s.astype T dt))
  | "real" => do
      let ok ← l.bool? "castok"
      match S with
      | .tensor t => some (showOS ((t.realSpace T ok).map .tensor))
      | _ => none
  | "complex" => do
      let ok ← l.bool? "castok"
      match S with
      | .tensor t => some (showOS ((t.complexSpace T ok).map .tensor))
      | _ => none
  | "pindex" => do
      let idx ← Term.pidx? (← Term.parse (← l.get? "idx"))
      some (showOS (S.pindex idx))
  | "byaxis" => do
      let idx ← Term.pidx? (← Term.parse (← l.get? "idx"))
      match S with
      | .tensor t => some (showOS ((t.byaxis T idx 0 ((l.nat? "flen").getD 0)).map .tensor))
      | _ => none
  | "indexspace" => do
      let sh ← Term.nats? (← Term.parse (← l.get? "shape"))
      match S with
      | .tensor t => some (showOS ((t.indexSpace sh 0).map .tensor))
      | _ => none
  | _ => none

/-! ### round 4: membership in plain sets -/

namespace Term

def scalar? : Term → Option Scalar
  | .atom "n" => some .pynone
  | .app "b" [t] => do some (.bool (← bool? t))
  | .app "i" [.atom s] => do some (.int (← s.toInt?))
  | .app "r" [t] => do some (.real (← rat? t))
  | .app "c" [a, b] => do some (.cplx (← rat? a) (← rat? b) false)
  | .app "cn" [a, b] => do some (.cplx (← rat? a) (← rat? b) true)
  | .app "s" [] => some (.str "")
  | .app "s" [.atom s] => some (.str s)
  | _ => none

partial def val? : Term → Option Val
  | .app "t" args => do some (.tuple (← args.mapM val?))
  | t => do some (.sc (← scalar? t))

def rats? (t : Term) : Option (List Rat) := do (← t.list?).mapM rat?

def pleaf? : Term → Option PLeaf
  | .atom "empty" => some .empty
  | .atom "universal" => some .universal
  | .app "strings" [n] => do some (.strings (← nat? n))
  | .atom "complex" => some .complex
  | .atom "real" => some .real
  | .atom "integers" => some .integers
  | .app "iv" [lo, hi] => do some (.interval (← rats? lo) (← rats? hi))
  | .app "fs" args => do some (.finite (← args.mapM scalar?))
  | _ => none

partial def pset? : Term → Option PSet
  | .app "cart" args => do some (.cartesian (← args.mapM pset?))
  | .app "union" args => do some (.union (← args.mapM pset?))
  | .app "inter" args => do some (.inter (← args.mapM pset?))
  | t => do some (.leaf (← pleaf? t))

end Term

/-- `mem S=<pset> vals=L(v1,…,vn)`: answers `ok <n chars t/f: v_i in S>`. -/
def doMem (l : Line) : Option String := do
  let S ← Term.pset? (← Term.parse (← l.get? "S"))
  let vs ← (← (← Term.parse (← l.get? "vals")).list?).mapM Term.val?
  some s!"ok {String.ofList (vs.map fun v => outChar (some (S.mem v)))}"

/-- `cset A=<pleaf> B=<pleaf> atol=<rat> same=0|1` (`same`: `B is A`): answers `ok t|f|e` for `A.contains_set(B[, atol])`. -/
def doCset (l : Line) : Option String := do
  let A ← Term.pleaf? (← Term.parse (← l.get? "A"))
  let B ← Term.pleaf? (← Term.parse (← l.get? "B"))
  let atol ← l.rat? "atol"
  let same ← l.bool? "same"
  some s!"ok {outChar (PLeaf.containsSet atol same A B)}"

/-- `call A=<pleaf> dts=L(dtype,…)`: answers `ok <chars t/f/e>` for `A.contains_all(zeros(dtype))`. -/
def doCall (l : Line) : Option String := do
  let A ← Term.pleaf? (← Term.parse (← l.get? "A"))
  let ds ← (← (← Term.parse (← l.get? "dts")).list?).mapM Term.dtype?
  let T := OdlModel.Gen.DTypes.tables
  some s!"ok {String.ofList (ds.map fun d => outChar (A.containsAllDtype T d))}"

/-- `approxeq A=iv(..) B=iv(..) atol=<rat>`: answers `ok t|f|e` for `A.approx_equals(B, atol)`
(A and B distinct objects). -/
def doApproxEq (l : Line) : Option String := do
  let A ← Term.pleaf? (← Term.parse (← l.get? "A"))
  let B ← Term.pleaf? (← Term.parse (← l.get? "B"))
  let atol ← l.rat? "atol"
  match A, B with
  | .interval lo hi, .interval lo' hi' => some s!"ok {outChar (intervalApproxEq atol lo hi lo' hi')}"
  | _, _ => none

def handle (l : Line) : Option String :=
  match l.op with
  | "eqall" => doEqAll l
  | "contains" => doContains l
  | "element" => doElement l
  | "derive" => doDerive l
  | "mem" => doMem l
  | "cset" => doCset l
  | "call" => doCall l
  | "approxeq" => doApproxEq l
  | _ => none

def main : IO Unit := driverLoop handle
