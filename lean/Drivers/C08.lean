import OdlModel.Common
import OdlModel.Model.Functionals
import OdlModel.Model.FunctionalsWire
open OdlModel OdlModel.Functionals

/-- `val f=<expr> w=<weights> x=<vec>`        → `ok v=<rat|inf|noeval>`          (f(x))
    `conjval f=… w=… x=…`                    → `ok v=…` | `noconj`               (f.convex_conj(x))
    `biconjval f=… w=… x=…`                  → `ok v=…` | `noconj`               (f.convex_conj.convex_conj(x))
    `conjskel f=… w=… x=…`                   → `ok s=<class skeleton of f.convex_conj>` | `noconj`
    `fy f=… w=… x=… y=…`                     → `ok fx=… gy=… xy=…` | `noconj`    (Fenchel–Young triple) -/
def handle (l : Line) : Option String := do
  let (o, f, n) ← parseCase l true
  let x ← vecArg l "x" n
  match l.op with
  | "val" => some s!"ok v={showValue o f x}"
  | "conjval" =>
      match f.conj o with
      | none => some "noconj"
      | some g => some s!"ok v={showValue o g x}"
  | "biconjval" =>
      match f.conj o with
      | none => some "noconj"
      | some g =>
        match g.conj o with
        | none => some "noconj"
        | some h => some s!"ok v={showValue o h x}"
  | "conjskel" =>
      match f.conj o with
      | none => some "noconj"
      | some g => some s!"ok s={"|".intercalate g.skel}"
  | "fy" => do
      let y ← vecArg l "y" n
      match f.conj o with
      | none => some "noconj"
      | some g => some s!"ok fx={showValue o f x} gy={showValue o g y} xy={showRat (o.inner x y)}"
  | _ => none

def main : IO Unit := driverLoop handle
