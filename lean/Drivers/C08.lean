import OdlModel.Common
import OdlModel.Model.Functionals
import OdlModel.Model.FunctionalsWire
import OdlModel.Model.FunctionalsProx
import OdlModel.Model.FunctionalsSep
open OdlModel OdlModel.Functionals OdlModel.FunctionalsLeaves

/-- The parts `w<i>= f<i>= x<i>= d<i>=` (i < k) of a `sepfy` line (`d<i>` = the part of the dual
argument `y`). -/
def parseParts (l : Line) : Nat → Nat → Option (List (SepPart Rat))
  | _, 0 => some []
  | i, k + 1 => do
      let w ← l.rats? s!"w{i}"
      if w.isEmpty then none
      let fs ← l.get? s!"f{i}"
      let (f, rest) ← parseFn w.length true 64 (fs.splitOn "|")
      if !rest.isEmpty then none
      let x ← vecArg l s!"x{i}" w.length
      let d ← vecArg l s!"d{i}" w.length
      let r ← parseParts l (i + 1) k
      some (⟨w, f, x, d⟩ :: r)

def showSepValue (ps : List (SepPart Rat)) : String :=
  if !(sepEvaluable ps) then "noeval" else if !(sepDom ps) then "inf" else showRat (sepValue ps)

/-- `sepfy k=<parts> w0= f0= x0= d0= w1= …` → `ok fx=… gy=… xy=… s=<skeletons of the conjugate
parts joined by +>` | `noconj`   (SeparableSum: f(x), f.convex_conj(y), <x, y>) -/
def handleSep (l : Line) : Option String := do
  let k ← l.nat? "k"
  if k = 0 then none
  let ps ← parseParts l 0 k
  match sepConj ps with
  | none => some "noconj"
  | some qs =>
      let sk := "+".intercalate (qs.map fun q => "|".intercalate q.f.skel)
      some s!"ok fx={showSepValue ps} gy={showSepValue qs} xy={showRat (sepInner ps (sepArg ps) (sepDir ps))} s={sk}"

/-- `val f=<expr> w=<weights> x=<vec>`        → `ok v=<rat|inf|noeval>`          (f(x))
    `conjval f=… w=… x=…`                    → `ok v=…` | `noconj`               (f.convex_conj(x))
    `biconjval f=… w=… x=…`                  → `ok v=…` | `noconj`               (f.convex_conj.convex_conj(x))
    `conjskel f=… w=… x=…`                   → `ok s=<class skeleton of f.convex_conj>` | `noconj`
    `fy f=… w=… x=… y=…`                     → `ok fx=… gy=… xy=…` | `noconj`    (Fenchel–Young triple)
    `moreau f=… w=… x=… sigma=… lamf=…`      → `ok p1=… p2=… lhs=…` | `noconj` | `noprox1` | `noprox2`
        (p1 = f.proximal(σ)(x), p2 = f.convex_conj.proximal(1/σ)(x/σ), lhs = p1 + σ p2;
         lamf = the fudged radius of proximal_convex_conj_l1) -/
def handle (l : Line) : Option String := do
  if l.op = "sepfy" then handleSep l else
  let (o, f, n) ← parseCase l true
  let x ← vecArg l "x" n
  match l.op with
  | "val" => some s!"ok v={showValue o f x}"
  | "conjval" =>
      match f.conj o with
      | none => some "noconj"
      | some g => some s!"ok v={showValue o g x}"
  | "biconjval" =>
      match f.conj o with
      | none => some "noconj"
      | some g =>
        match g.conj o with
        | none => some "noconj"
        | some h => some s!"ok v={showValue o h x}"
  | "conjskel" =>
      match f.conj o with
      | none => some "noconj"
      | some g => some s!"ok s={"|".intercalate g.skel}"
  | "fy" => do
      let y ← vecArg l "y" n
      match f.conj o with
      | none => some "noconj"
      | some g => some s!"ok fx={showValue o f x} gy={showValue o g y} xy={showRat (o.inner x y)}"
  | "moreau" => do
      let σ ← l.rat? "sigma"
      let lamF ← l.rat? "lamf"
      if σ ≤ 0 then none
      let E : OdlModel.Prox.Env Rat := { sqrt := ratSqrt, eps := 0 }
      match moreauPair E lamF (← l.rats? "w") f σ x with
      | .noconj => some "noconj"
      | .noprox1 => some "noprox1"
      | .noprox2 => some "noprox2"
      | .ok p1 p2 lhs =>
          some s!"ok p1={showRatList p1} p2={showRatList p2} lhs={showRatList lhs}"
  | _ => none

def main : IO Unit := driverLoop handle
