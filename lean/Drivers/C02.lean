import OdlModel.Common
import OdlModel.Model.CRat
import OdlModel.Model.Weighting
import OdlModel.Gen.WeightingDispatch
open OdlModel OdlModel.Weighting

/-! Driver for C02.  Protocol (one line in, one line out):

* `inner sp=<space> x=<clist> y=<clist>`  → `ok v=<re[:im]> vi=<re[:im]>` | `err:notimpl` (exact, `CRat`/`Rat`;
  `v` with the real `np.isclose` tolerance, `vi` with the idealised `frac = 1` of the theorems)
* `norm  sp=<space> x=<clist>`            → `ok v=<rational of the double>`      (`Float`)
* `dist  sp=<space> x=<clist> y=<clist>`  → `ok v=<rational of the double>`      (`Float`)
* `info  sp=<space>`  (discretized)       → `ok n=… fl=… fr=… w=…`              (exact)
* `cinner` / `cnorm` / `cdist` (custom weightings, see below) → `ok v=…` | `err:notimpl`

`<space>` is a prefix token stream separated by `~`:
`T~n~p~W` tensor; `D~unif~p~W~d~(n~fl~fr)^d` discretized with given fractions;
`U~p~W~d~(a~b~n~l~r)^d` `uniform_discr` from its constructor arguments (`W` may be `def`);
`P~m~p~W~<space>^m` product.  `p ∈ {1, 2, inf, g<rat>}`, `W ∈ {c<rat>, a<rat,rat,…>, def}`.
Elements are flat lists in depth-first order. -/

/-- complex doubles for the floating-point evaluation of norms -/
structure CF where
  re : Float
  im : Float

instance : Add CF := ⟨fun x y => ⟨x.re + y.re, x.im + y.im⟩⟩
instance : Sub CF := ⟨fun x y => ⟨x.re - y.re, x.im - y.im⟩⟩
instance : Mul CF := ⟨fun x y => ⟨x.re * y.re - x.im * y.im, x.re * y.im + x.im * y.re⟩⟩
instance : OfNat CF 0 := ⟨⟨0, 0⟩⟩

def ratToFloat (r : Rat) : Float := Float.ofInt r.num / Float.ofNat r.den

def floatToRat (x : Float) : Option Rat :=
  if x.isNaN || x.isInf then none else
  let (m, e) := x.frExp
  let mi : Int := (m.scaleB 53).toInt64.toInt
  let e' : Int := e - 53
  some (if e' ≥ 0 then (mi : Rat) * ((2 : Rat) ^ e'.toNat) else (mi : Rat) / ((2 : Rat) ^ (-e').toNat))

def ratAbs (r : Rat) : Rat := if r < 0 then -r else r

/-- `np.isclose(r, 1.0)`: `|r - 1| ≤ atol + rtol·|1|`, `atol = 1e-8`, `rtol = 1e-5`. -/
def closeRat (r : Rat) : Bool := ratAbs (r - 1) ≤ (1 : Rat) / 100000000 + (1 : Rat) / 100000
def closeFloat (r : Float) : Bool := (r - 1).abs ≤ 1e-8 + 1e-5

def exactOps : IOps CRat Rat := { rK := CRat.ofRat, conj := CRat.conj }

def floatOps : Ops CF Float :=
  { rK := fun r => ⟨r, 0⟩, conj := fun z => ⟨z.re, -z.im⟩, re := fun z => z.re,
    abs := fun z => if z.im == 0 then z.re.abs else Float.sqrt (z.re * z.re + z.im * z.im) }

def floatRoots : Roots Float :=
  { sqrt := Float.sqrt, rpow := Float.pow, rabs := Float.abs, close1 := closeFloat }

section parse
variable {R : Type} [OfNat R 0] [OfNat R 1] [OfNat R 2] [Add R] [Sub R] [Mul R] [Div R] [Max R]

def parseExpo (cv : Rat → R) (s : String) : Option (Expo R) :=
  if s = "1" then some .one else if s = "2" then some .two else if s = "inf" then some .inf
  else if s.startsWith "g" then (parseRat (s.drop 1).toString).map (fun r => .gen (cv r)) else none

def arrFn (cv : Rat → R) (a : Array R) : Nat → R :=
  fun i => a.getD i (cv 0)

def parseTW (cv : Rat → R) (s : String) : Option (Option (TW R)) :=
  if s = "def" then some none
  else if s.startsWith "c" then (parseRat (s.drop 1).toString).map (fun r => some (.const (cv r)))
  else if s.startsWith "a" then (parseRatList (s.drop 1).toString).map (fun l => some (.arr (arrFn cv (l.map cv).toArray)))
  else none

def parsePW (cv : Rat → R) (s : String) : Option (PW R) :=
  if s.startsWith "c" then (parseRat (s.drop 1).toString).map (fun r => .const (cv r))
  else if s.startsWith "a" then (parseRatList (s.drop 1).toString).map (fun l => .arr (arrFn cv (l.map cv).toArray))
  else none

def parseBool (s : String) : Option Bool :=
  if s = "1" then some true else if s = "0" then some false else none

def parseAxes (cv : Rat → R) : Nat → List String → Option (List (Axis R) × List String)
  | 0, l => some ([], l)
  | d + 1, n :: fl :: fr :: l => do
      let n ← n.toNat?
      let fl ← parseRat fl
      let fr ← parseRat fr
      let (rest, l') ← parseAxes cv d l
      some (⟨n, cv fl, cv fr⟩ :: rest, l')
  | _, _ => none

def parseSpecs (cv : Rat → R) : Nat → List String → Option (List (AxSpec R) × List String)
  | 0, l => some ([], l)
  | d + 1, a :: b :: n :: lf :: rf :: l => do
      let a ← parseRat a
      let b ← parseRat b
      let n ← n.toNat?
      let lf ← parseBool lf
      let rf ← parseBool rf
      if n = 0 then none
      let (rest, l') ← parseSpecs cv d l
      some (⟨cv a, cv b, n, lf, rf⟩ :: rest, l')
  | _, _ => none

def dummySpace : Space R := .tens 0 (.const 1) .two

partial def parseSpace (cv : Rat → R) (ofNat : Nat → R) :
    List String → Option (Space R × List String)
  | "T" :: n :: p :: w :: l => do
      let n ← n.toNat?
      let p ← parseExpo cv p
      let w ← parseTW cv w
      let w ← w
      some (.tens n w p, l)
  | "D" :: u :: p :: w :: d :: l => do
      let u ← parseBool u
      let p ← parseExpo cv p
      let w ← parseTW cv w
      let w ← w
      let d ← d.toNat?
      let (axes, l') ← parseAxes cv d l
      some (.discr u axes w p, l')
  | "U" :: p :: w :: d :: l => do
      let p ← parseExpo cv p
      let w ← parseTW cv w
      let d ← d.toNat?
      let (specs, l') ← parseSpecs cv d l
      some (uniformDiscr ofNat specs p w, l')
  | "P" :: m :: p :: w :: l => do
      let m ← m.toNat?
      let p ← parseExpo cv p
      let w ← parsePW cv w
      let rec go (k : Nat) (l : List String) (acc : Array (Space R)) :
          Option (Array (Space R) × List String) :=
        if k = 0 then some (acc, l) else do
          let (s, l') ← parseSpace cv ofNat l
          go (k - 1) l' (acc.push s)
      let (comps, l') ← go m l #[]
      some (.prod m w p (fun k => comps.getD k dummySpace), l')
  | _ => none

end parse

/-- Cut an element of the space's shape out of a flat list (depth-first order). -/
partial def takeEl {K R : Type} [OfNat K 0] : Space R → List K → Option (El K × List K)
  | .tens n _ _, l =>
      if l.length < n then none else
      let a := (l.take n).toArray
      some (.vec (fun i => a.getD i 0), l.drop n)
  | .discr _ axes _ _, l =>
      let n := axesSize axes
      if l.length < n then none else
      let a := (l.take n).toArray
      some (.vec (fun i => a.getD i 0), l.drop n)
  | .prod m _ _ comp, l =>
      let rec go (k : Nat) (l : List K) (acc : Array (El K)) : Option (Array (El K) × List K) :=
        if k ≥ m then some (acc, l) else do
          let (e, l') ← takeEl (comp k) l
          go (k + 1) l' (acc.push e)
      do
        let (parts, l') ← go 0 l #[]
        some (.tup (fun k => parts.getD k (.vec (fun _ => 0))), l')

def getSpace {R : Type} [OfNat R 0] [OfNat R 1] [OfNat R 2] [Add R] [Sub R] [Mul R] [Div R]
    [Max R] (cv : Rat → R) (ofNat : Nat → R) (l : Line) : Option (Space R) := do
  let s ← l.get? "sp"
  let (sp, rest) ← parseSpace cv ofNat (s.splitOn "~")
  if rest.isEmpty then some sp else none

def getEl {K R : Type} [OfNat K 0] (sp : Space R) (cvK : CRat → K) (l : Line) (k : String) :
    Option (El K) := do
  let xs ← l.crats? k
  let (e, rest) ← takeEl sp (xs.map cvK)
  if rest.isEmpty then some e else none

def showFloat (x : Float) : String :=
  match floatToRat x with
  | some r => s!"ok v={showRat r}"
  | none => "err:nonfinite"

def toCF (z : CRat) : CF := ⟨ratToFloat z.re, ratToFloat z.im⟩

def doInner (l : Line) : Option String := do
  let sp ← getSpace (R := Rat) id (fun n => (n : Rat)) l
  let x ← getEl sp id l "x"
  let y ← getEl sp id l "y"
  if !sp.hasInner then some "err:notimpl"
  else
    -- `v`: with the code's `np.isclose(frac, 1.0)`; `vi`: with the idealised test `frac = 1`
    -- under which the theorems of Props/C02.lean are stated (they coincide unless a boundary
    -- fraction is within the tolerance of 1 without being 1)
    some s!"ok v={(Space.inner exactOps closeRat sp x y).str} vi={(Space.inner exactOps (fun r => r == 1) sp x y).str}"

def doNorm (l : Line) : Option String := do
  let sp ← getSpace (R := Float) ratToFloat Float.ofNat l
  let x ← getEl sp toCF l "x"
  some (showFloat (Space.norm floatOps floatRoots sp x))

def doDist (l : Line) : Option String := do
  let sp ← getSpace (R := Float) ratToFloat Float.ofNat l
  let x ← getEl sp toCF l "x"
  let y ← getEl sp toCF l "y"
  some (showFloat (Space.dist floatOps floatRoots sp x y))

/-- fractions and weight the model derives for a `uniform_discr` space (exact) -/
def doInfo (l : Line) : Option String := do
  let sp ← getSpace (R := Rat) id (fun n => (n : Rat)) l
  match sp with
  | .discr _ axes (.const c) _ =>
      some s!"ok n={showNatList (axes.map (·.n))} fl={showRatList (axes.map (·.fl))} fr={showRatList (axes.map (·.fr))} w={showRat c}"
  | _ => none

/-! #### custom weightings: ops `cinner` / `cnorm` / `cdist`

`k=T|P` (tensor / product space: pure delegation, elements flat) `n=<size>` or
`k=D u=<unif> ax=<n,fl,fr;…>` (discretized: boundary scaling, then delegation);
`ck=i B=<matrix> [C=<matrix>]` (`inner = vdot(B v, B u)` resp. `vdot(C v, B u)`), `ck=n w=<list>` (`norm = max(w |u|)`),
`ck=d w=<list> cap=<rat>` (`dist = min(cap, sum(w |u - v|))`). -/

section custom
variable {K R : Type} [OfNat K 0] [Add K] [Mul K] [Sub K]
  [OfNat R 0] [OfNat R 1] [OfNat R 2] [Add R] [Sub R] [Mul R] [Div R] [Max R] [Min R]

def mkCustom (cvK : Rat → K) (cvR : Rat → R) (o : IOps K R) (abs : K → R) (n : Nat) (l : Line) :
    Option (Custom K R (Nat → K)) := do
  let ck ← l.get? "ck"
  if ck = "i" then
    let B ← l.mat? "B"
    if B.length != n || B.any (fun r => r.length != n) then none
    let Ba := (B.map (fun r => (r.map cvK).toArray)).toArray
    match l.get? "C" with
    | none => some (.inner (gramInner o n (fun i j => (Ba.getD i #[]).getD j (cvK 0))))
    | some _ =>
      let C ← l.mat? "C"
      if C.length != n || C.any (fun r => r.length != n) then none
      let Ca := (C.map (fun r => (r.map cvK).toArray)).toArray
      some (.inner (formInner o n (fun i j => (Ba.getD i #[]).getD j (cvK 0))
        (fun i j => (Ca.getD i #[]).getD j (cvK 0))))
  else if ck = "n" then
    let w ← l.rats? "w"
    if w.length != n then none
    some (.norm (wMaxNorm abs n (arrFn cvR (w.map cvR).toArray)))
  else if ck = "d" then
    let w ← l.rats? "w"
    let cap ← l.rat? "cap"
    if w.length != n then none
    some (.dist (capDist abs n (arrFn cvR (w.map cvR).toArray) (cvR cap)))
  else none

/-- `(unif, axes, size)`; tensor / product spaces: `none` for the first two. -/
def customGeom (cvR : Rat → R) (l : Line) : Option (Option (Bool × List (Axis R)) × Nat) := do
  let k ← l.get? "k"
  if k = "T" || k = "P" then
    let n ← l.nat? "n"
    some (none, n)
  else if k = "D" then
    let u ← l.bool? "u"
    let ax ← l.mat? "ax"
    let axes ← ax.mapM (fun r => match r with
      | [n, fl, fr] => if n.den = 1 && n.num > 0 then some (⟨n.num.toNat, cvR fl, cvR fr⟩ : Axis R) else none
      | _ => none)
    some (some (u, axes), axesSize axes)
  else none

def getVec (cvK : CRat → K) (n : Nat) (l : Line) (k : String) : Option (Nat → K) := do
  let xs ← l.crats? k
  if xs.length != n then none
  let a := (xs.map cvK).toArray
  some (fun i => a.getD i 0)

end custom

def showOptC : Option CRat → String
  | some v => s!"ok v={v.str}"
  | none => "err:notimpl"

def showOptF : Option Float → String
  | some v => showFloat v
  | none => "err:notimpl"

def doCInner (l : Line) : Option String := do
  let (g, n) ← customGeom (R := Rat) id l
  -- the modulus is only used by the `norm=` / `dist=` callables, which `cInner` never calls
  let c ← mkCustom (K := CRat) CRat.ofRat id exactOps (fun z => ratAbs z.re) n l
  let x ← getVec id n l "x"
  let y ← getVec id n l "y"
  match g with
  | none => some (showOptC (cInner c x y))
  | some (u, axes) => some (showOptC (cdInner exactOps closeRat u axes c x y))

def doCNorm (l : Line) : Option String := do
  let (g, n) ← customGeom (R := Float) ratToFloat l
  let c ← mkCustom (K := CF) (fun r => ⟨ratToFloat r, 0⟩) ratToFloat floatOps.toIOps floatOps.abs n l
  let x ← getVec toCF n l "x"
  match g with
  | none => some (showOptF (cNorm floatOps.re floatRoots.sqrt c x))
  | some (u, axes) => some (showOptF (cdNorm floatOps floatRoots u axes c x))

def doCDist (l : Line) : Option String := do
  let (g, n) ← customGeom (R := Float) ratToFloat l
  let c ← mkCustom (K := CF) (fun r => ⟨ratToFloat r, 0⟩) ratToFloat floatOps.toIOps floatOps.abs n l
  let x ← getVec toCF n l "x"
  let y ← getVec toCF n l "y"
  match g with
  | none => some (showOptF (cDist floatOps.re floatRoots.sqrt vsub c x y))
  | some (u, axes) => some (showOptF (cdDist floatOps floatRoots u axes c x y))


/-! #### branch selection of `_inner_default` / `_norm_default` (extracted trees):
`idispatch real=<0|1> size=<n> xp=<pattern> yp=<pattern>` → `ok leaf=<routine> v=<exact>`;
`ndispatch blas=<0|1> real=<0|1> size=<n> xp=<pattern>` → `ok leaf=<routine> v=<double>`;
the arrays are the patterns repeated cyclically up to `size`. -/

def cyc {K : Type} [OfNat K 0] (l : List K) : Option (Nat → K) :=
  if l.isEmpty then none else
  let a := l.toArray
  some (fun i => a.getD (i % a.size) 0)

def doIDispatch (l : Line) : Option String := do
  let real ← l.bool? "real"
  let n ← l.nat? "size"
  let x ← (← l.crats? "xp") |> cyc
  let y ← (← l.crats? "yp") |> cyc
  let f : Facts := ⟨real, n, true⟩
  some s!"ok leaf={(Gen.innerTree.select f).name} v={(innerDispatch exactOps Gen.innerTree f x y).str}"

def doNDispatch (l : Line) : Option String := do
  let real ← l.bool? "real"
  let blas ← l.bool? "blas"
  let n ← l.nat? "size"
  let x ← ((← l.crats? "xp").map toCF) |> cyc
  let f : Facts := ⟨real, n, blas⟩
  match floatToRat (normDispatch Float.sqrt Gen.normTree f (fun i => floatOps.abs (x i))) with
  | some r => some s!"ok leaf={(Gen.normTree.select f).name} v={showRat r}"
  | none => some "err:nonfinite"


def handle (l : Line) : Option String :=
  match l.op with
  | "inner" => doInner l
  | "norm" => doNorm l
  | "dist" => doDist l
  | "info" => doInfo l
  | "cinner" => doCInner l
  | "cnorm" => doCNorm l
  | "cdist" => doCDist l
  | "idispatch" => doIDispatch l
  | "ndispatch" => doNDispatch l
  | _ => none

def main : IO Unit := driverLoop handle
