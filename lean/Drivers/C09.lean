import OdlModel.Common
import OdlModel.Model.Functionals
import OdlModel.Model.FunctionalsWire
import OdlModel.Model.FunctionalsLeaves
open OdlModel OdlModel.Functionals OdlModel.FunctionalsLeaves

/-- Rational square root: exact when the argument is the square of a rational, otherwise
accurate to a relative 2^-64 (same helper as the C07 driver). -/
def ratSqrt (r : Rat) : Rat :=
  if r ≤ 0 then 0 else
  let k : Nat := 64
  let n := r.num.toNat * r.den * 4 ^ k
  mkRat (Nat.sqrt n) (r.den * 2 ^ k)

def parseOptList (s : String) : Option (List (Option Rat)) :=
  parseList (fun t => if t = "n" then some none else (parseRat t).map some) s

/-- The parts `w<i>= f<i>= x<i>= d<i>=` (i < k) of a `sep` line. -/
def parseParts (l : Line) : Nat → Nat → Option (List (SepPart Rat))
  | _, 0 => some []
  | i, k + 1 => do
      let w ← l.rats? s!"w{i}"
      if w.isEmpty then none
      let fs ← l.get? s!"f{i}"
      let (f, rest) ← parseFn w.length false 64 (fs.splitOn "|")
      if !rest.isEmpty then none
      let x ← vecArg l s!"x{i}" w.length
      let d ← vecArg l s!"d{i}" w.length
      let r ← parseParts l (i + 1) k
      some (⟨w, f, x, d⟩ :: r)

/-- Round 4 ops (leaves outside the expression language, `Model/FunctionalsLeaves.lean`):
    `klgrad kind=kl|klcc g=<prior> x=<vec>`       → `ok g=<vec>` | `nonfinite`
    `kldom kind=kl|klcc x=<vec>`                 → `ok inf=0|1`   (is `_call` = inf?)
    `box w=<weights> lo=<a|n,…> hi=<b|n,…> x=…`   → `ok v=0|inf`
    `sep k=<parts> w0= f0= x0= d0= w1= …`         → `ok v=<rat|inf|noeval> g=<vec|nograd> dv=<rat|nograd>`
    `l2 w=<weights> x=<vec>`                      → `ok v=<rat> g=<vec> exact=0|1` (exact: the root is rational) -/
def handleLeaves (l : Line) : Option String := do
  match l.op with
  | "klgrad" => do
      let kind ← l.get? "kind"
      let g ← l.rats? "g"
      let x ← vecArg l "x" g.length
      if g.isEmpty then none
      match kind with
      | "kl" => some (if klGradFinite x then s!"ok g={showRatList (klGrad g x)}" else "nonfinite")
      | "klcc" => some (if klccGradFinite x then s!"ok g={showRatList (klccGrad g x)}" else "nonfinite")
      | _ => none
  | "kldom" => do
      let kind ← l.get? "kind"
      let x ← l.rats? "x"
      if x.isEmpty then none
      match kind with
      | "kl" => some s!"ok inf={if klDom x then 0 else 1}"
      | "klcc" => some s!"ok inf={if klccDom x then 0 else 1}"
      | _ => none
  | "box" => do
      let w ← l.rats? "w"
      if w.isEmpty then none
      let x ← vecArg l "x" w.length
      let lo ← l.get? "lo" >>= parseOptList
      let hi ← l.get? "hi" >>= parseOptList
      if lo.length ≠ w.length || hi.length ≠ w.length then none
      some s!"ok v={if boxIsInf (mkBox w lo hi x) then "inf" else "0"}"
  | "l2" => do
      let w ← l.rats? "w"
      if w.isEmpty then none
      let x ← vecArg l "x" w.length
      let v := l2Val ratSqrt w x
      let ex := if v * v = innerW w x x then 1 else 0
      some s!"ok v={showRat v} g={showRatList (l2Grad ratSqrt w x)} exact={ex}"
  | "sep" => do
      let k ← l.nat? "k"
      if k = 0 then none
      let ps ← parseParts l 0 k
      let v := if !(ps.all fun p => p.f.evaluable) then "noeval"
               else if !(sepDom ps) then "inf" else showRat (sepValue ps)
      if !(sepHasGrad ps) then some s!"ok v={v} g=nograd dv=nograd" else
      some s!"ok v={v} g={showRatList (sepGrad ps)} dv={showRat (sepDeriv ps)}"
  | _ => none

/-- `val f=<expr> w=<weights> x=<vec>`            → `ok v=<rat|inf|noeval>`
    `grad f=… w=… x=…`                           → `ok g=<vec>` | `nograd`
    `deriv f=… w=… x=… d=…`                      → `ok v=<rat>` (= d.inner(grad f(x)))
    `lip f=… w=…`                                → `nan` | `inf` | `fin r=… roots=c:q;…` -/
def handle (l : Line) : Option String := do
  if l.op = "klgrad" || l.op = "kldom" || l.op = "box" || l.op = "sep" || l.op = "l2" then handleLeaves l else
  let (o, f, n) ← parseCase l false
  match l.op with
  | "val" => do
      let x ← vecArg l "x" n
      some s!"ok v={showValue o f x}"
  | "grad" => do
      let x ← vecArg l "x" n
      if !f.hasGrad then some "nograd" else
      some s!"ok g={showRatList (f.grad o x)}"
  | "deriv" => do
      let x ← vecArg l "x" n
      let d ← vecArg l "d" n
      if !f.hasGrad then some "nograd" else
      some s!"ok v={showRat (f.deriv o x d)}"
  | "lip" => some (showLip (f.lip o))
  | _ => none

def main : IO Unit := driverLoop handle
