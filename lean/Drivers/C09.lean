import OdlModel.Common
import OdlModel.Model.Functionals
import OdlModel.Model.FunctionalsWire
import OdlModel.Model.FunctionalsLeaves
open OdlModel OdlModel.Functionals OdlModel.FunctionalsLeaves

/-- Rational square root: exact when the argument is the square of a rational, otherwise
accurate to a relative 2^-64 (same helper as the C07 driver). -/
def ratSqrt (r : Rat) : Rat :=
  if r ≤ 0 then 0 else
  let k : Nat := 64
  let n := r.num.toNat * r.den * 4 ^ k
  mkRat (Nat.sqrt n) (r.den * 2 ^ k)

def parseOptList (s : String) : Option (List (Option Rat)) :=
  parseList (fun t => if t = "n" then some none else (parseRat t).map some) s

/-- The parts `w<i>= f<i>= x<i>= d<i>=` (i < k) of a `sep` line. -/
def parseParts (l : Line) : Nat → Nat → Option (List (SepPart Rat))
  | _, 0 => some []
  | i, k + 1 => do
      let w ← l.rats? s!"w{i}"
      if w.isEmpty then none
      let fs ← l.get? s!"f{i}"
      let (f, rest) ← parseFn w.length false 64 (fs.splitOn "|")
      if !rest.isEmpty then none
      let x ← vecArg l s!"x{i}" w.length
      let d ← vecArg l s!"d{i}" w.length
      let r ← parseParts l (i + 1) k
      some (⟨w, f, x, d⟩ :: r)

/-- Trees over the new leaves (`FnX`), prefix tokens: `xkl|g` `xklcc|g` `xl2` `xlscal|s|F`
`xrscal|s|F` `xsum|F|G` `xssum|c|F` `xtrans|t|F` `xqp|a|u|c|F`; anything else is a whole `Fn` tree. -/
def parseFnX (n : Nat) : Nat → List String → Option (FnX (List Rat) Rat × List String)
  | 0, _ => none
  | fuel + 1, toks =>
    let vec (s : String) : Option (List Rat) := do
      let v ← parseRatList s
      if v.length = n then some v else none
    match toks with
    | "xkl" :: g :: r => do let g ← vec g; some (.kl g, r)
    | "xklcc" :: g :: r => do let g ← vec g; some (.klcc g, r)
    | "xl2" :: r => some (.l2, r)
    | "xlscal" :: s :: r => do
        let s ← parseRat s; let (f, r') ← parseFnX n fuel r; some (.lscal s f, r')
    | "xrscal" :: s :: r => do
        let s ← parseRat s; let (f, r') ← parseFnX n fuel r; some (.rscal f s, r')
    | "xsum" :: r => do
        let (f, r1) ← parseFnX n fuel r; let (g, r2) ← parseFnX n fuel r1; some (.sum f g, r2)
    | "xssum" :: c :: r => do
        let c ← parseRat c; let (f, r') ← parseFnX n fuel r; some (.ssum f c, r')
    | "xtrans" :: t :: r => do
        let t ← vec t; let (f, r') ← parseFnX n fuel r; some (.trans f t, r')
    | "xqp" :: a :: u :: c :: r => do
        let a ← parseRat a; let u ← vec u; let c ← parseRat c
        let (f, r') ← parseFnX n fuel r; some (.qp f a u c, r')
    | _ => do
        let (t, r) ← parseFn n false 64 toks
        some (.base t, r)

/-- Round 4 ops (leaves outside the expression language, `Model/FunctionalsLeaves.lean`):
    `klgrad kind=kl|klcc g=<prior> x=<vec>`       → `ok g=<vec>` | `nonfinite`
    `kldom kind=kl|klcc x=<vec>`                 → `ok inf=0|1`   (is `_call` = inf?)
    `box w=<weights> lo=<a|n,…> hi=<b|n,…> x=…`   → `ok v=0|inf`
    `sep k=<parts> w0= f0= x0= d0= w1= …`         → `ok v=<rat|inf|noeval> g=<vec|nograd> dv=<rat|nograd>`
    `l2 w=<weights> x=<vec>`                      → `ok v=<rat> g=<vec> exact=0|1` (exact: the root is rational) -/
def handleLeaves (l : Line) : Option String := do
  match l.op with
  | "klgrad" => do
      let kind ← l.get? "kind"
      let g ← l.rats? "g"
      let x ← vecArg l "x" g.length
      if g.isEmpty then none
      match kind with
      | "kl" => some (if klGradFinite x then s!"ok g={showRatList (klGrad g x)}" else "nonfinite")
      | "klcc" => some (if klccGradFinite x then s!"ok g={showRatList (klccGrad g x)}" else "nonfinite")
      | _ => none
  | "kldom" => do
      let kind ← l.get? "kind"
      let x ← l.rats? "x"
      if x.isEmpty then none
      match kind with
      | "kl" => some s!"ok inf={if klDom x then 0 else 1}"
      | "klcc" => some s!"ok inf={if klccDom x then 0 else 1}"
      | _ => none
  | "box" => do
      let w ← l.rats? "w"
      if w.isEmpty then none
      let x ← vecArg l "x" w.length
      let lo ← l.get? "lo" >>= parseOptList
      let hi ← l.get? "hi" >>= parseOptList
      if lo.length ≠ w.length || hi.length ≠ w.length then none
      some s!"ok v={if boxIsInf (mkBox w lo hi x) then "inf" else "0"}"
  | "l2" => do
      let w ← l.rats? "w"
      if w.isEmpty then none
      let x ← vecArg l "x" w.length
      let v := l2Val ratSqrt w x
      let ex := if v * v = innerW w x x then 1 else 0
      some s!"ok v={showRat v} g={showRatList (l2Grad ratSqrt w x)} exact={ex}"
  | "xval" | "xgrad" | "xderiv" => do
      -- `xval|xgrad|xderiv f=<FnX tokens> w=<weights> x=<vec> [d=<vec>]`
      let w ← l.rats? "w"
      if w.isEmpty then none
      let fs ← l.get? "f"
      let (f, rest) ← parseFnX w.length 64 (fs.splitOn "|")
      if !rest.isEmpty then none
      let x ← vecArg l "x" w.length
      let o := listOps w
      let lo := listLeafOps ratSqrt w
      match l.op with
      | "xval" => some (if f.hasLog then "ok v=log" else s!"ok v={showRat (f.value o lo x)}")
      | "xgrad" =>
          if !f.hasGrad then some "nograd" else
          if !f.gradOk o lo x then some "nonfinite" else
          some s!"ok g={showRatList (f.grad o lo x)}"
      | _ => do
          let d ← vecArg l "d" w.length
          if !f.hasGrad then some "nograd" else
          if !f.gradOk o lo x then some "nonfinite" else
          some s!"ok v={showRat (f.deriv o lo x d)}"
  | "sep" => do
      let k ← l.nat? "k"
      if k = 0 then none
      let ps ← parseParts l 0 k
      let v := if !(ps.all fun p => p.f.evaluable) then "noeval"
               else if !(sepDom ps) then "inf" else showRat (sepValue ps)
      if !(sepHasGrad ps) then some s!"ok v={v} g=nograd dv=nograd" else
      some s!"ok v={v} g={showRatList (sepGrad ps)} dv={showRat (sepDeriv ps)}"
  | _ => none

/-- `val f=<expr> w=<weights> x=<vec>`            → `ok v=<rat|inf|noeval>`
    `grad f=… w=… x=…`                           → `ok g=<vec>` | `nograd`
    `deriv f=… w=… x=… d=…`                      → `ok v=<rat>` (= d.inner(grad f(x)))
    `lip f=… w=…`                                → `nan` | `inf` | `fin r=… roots=c:q;…` -/
def handle (l : Line) : Option String := do
  if l.op = "klgrad" || l.op = "kldom" || l.op = "box" || l.op = "sep" || l.op = "l2" || l.op = "xval" || l.op = "xgrad" || l.op = "xderiv" then handleLeaves l else
  let (o, f, n) ← parseCase l false
  match l.op with
  | "val" => do
      let x ← vecArg l "x" n
      some s!"ok v={showValue o f x}"
  | "grad" => do
      let x ← vecArg l "x" n
      if !f.hasGrad then some "nograd" else
      some s!"ok g={showRatList (f.grad o x)}"
  | "deriv" => do
      let x ← vecArg l "x" n
      let d ← vecArg l "d" n
      if !f.hasGrad then some "nograd" else
      some s!"ok v={showRat (f.deriv o x d)}"
  | "lip" => some (showLip (f.lip o))
  | _ => none

def main : IO Unit := driverLoop handle
