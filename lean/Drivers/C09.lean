import OdlModel.Common
import OdlModel.Model.Functionals
import OdlModel.Model.FunctionalsWire
open OdlModel OdlModel.Functionals

/-- `val f=<expr> w=<weights> x=<vec>`            → `ok v=<rat|inf|noeval>`
    `grad f=… w=… x=…`                           → `ok g=<vec>` | `nograd`
    `deriv f=… w=… x=… d=…`                      → `ok v=<rat>` (= d.inner(grad f(x)))
    `lip f=… w=…`                                → `nan` | `inf` | `fin r=… roots=c:q;…` -/
def handle (l : Line) : Option String := do
  let (o, f, n) ← parseCase l false
  match l.op with
  | "val" => do
      let x ← vecArg l "x" n
      some s!"ok v={showValue o f x}"
  | "grad" => do
      let x ← vecArg l "x" n
      if !f.hasGrad then some "nograd" else
      some s!"ok g={showRatList (f.grad o x)}"
  | "deriv" => do
      let x ← vecArg l "x" n
      let d ← vecArg l "d" n
      if !f.hasGrad then some "nograd" else
      some s!"ok v={showRat (f.deriv o x d)}"
  | "lip" => some (showLip (f.lip o))
  | _ => none

def main : IO Unit := driverLoop handle
