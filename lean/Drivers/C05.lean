import OdlModel.Common
import OdlModel.Model.CRat
import OdlModel.Model.Adjoint
import OdlModel.Model.AdjointFD
open OdlModel OdlModel.Adjoint

/-!
Driver for C05.  One line describes an expression tree over modelled leaves in postfix
notation; the driver builds the model term, applies the model's `adj` and prints the
matrices of `run t` and `run (adj t)` over the real-coordinate unit vectors.

`tree S0=<space> S1=… t=<tok>|<tok>|…`
space  = `r|c;n0,n1,…;w…`  (real/complex; component sizes; one weight per entry, all
          components concatenated)
tokens = see `step` below; fields are separated by `;`, matrix rows by `~`.
answer = `ok ad=<space sig> ar=<space sig> A=<cols> B=<cols>` or `noadj A=<cols>`
         (`cols`: one column per real-coordinate unit vector, entries `,`, columns `~`).
-/

abbrev C := CRat

def cI : C := ⟨0, 1⟩

structure SpD where
  real : Bool
  sizes : Array Nat
  w : Array (Array C)

def SpD.toSpace (s : SpD) : Space C :=
  ⟨s.sizes.size, fun j => s.sizes.getD j 0, fun j i => (s.w.getD j #[]).getD i 0, s.real⟩

def splitSizes {α} (l : List α) : List Nat → Option (List (List α))
  | [] => if l.isEmpty then some [] else none
  | n :: ns => if l.length < n then none else do
      let rest ← splitSizes (l.drop n) ns
      some (l.take n :: rest)

def parseSpace (s : String) : Option SpD := do
  match s.splitOn ";" with
  | [f, ns, ws] =>
    let real ← (if f = "r" then some true else if f = "c" then some false else none)
    let sizes ← parseNatList ns
    let wl ← parseCList ws
    let parts ← splitSizes wl sizes
    some ⟨real, sizes.toArray, (parts.map List.toArray).toArray⟩
  | _ => none

def parseVec (sp : SpD) (s : String) : Option (El C) := do
  let l ← parseCList s
  let parts ← splitSizes l sp.sizes.toList
  let arr := (parts.map List.toArray).toArray
  some fun j i => (arr.getD j #[]).getD i 0

def parseFn (s : String) : Option (Nat → C) := do
  let l ← parseCList s
  let a := l.toArray
  some fun j => a.getD j 0

def parseIdx (s : String) : Option (Nat → Nat) := do
  let l ← parseNatList s
  let a := l.toArray
  some fun j => a.getD j 0

def parseMat (s : String) : Option (Nat → Nat → C) := do
  let rows ← (if s = "-" then some [] else (s.splitOn "~").mapM parseCList)
  let a := (rows.map List.toArray).toArray
  some fun i k => (a.getD i #[]).getD k 0

def parseKind : String → Option BKind
  | "pso" => some .pso | "bcast" => some .bcast | "red" => some .red | "diag" => some .diag
  | _ => none

def getSp (tbl : Array SpD) (s : String) : Option SpD := do
  let k ← s.toNat?
  tbl[k]?

def parseMethod : String → Option FiniteDiff.Method
  | "central" => some .central | "forward" => some .forward | "backward" => some .backward
  | _ => none

def parsePad : String → Option FiniteDiff.Pad
  | "constant" => some .constant | "symmetric" => some .symmetric
  | "symmetric_adjoint" => some .symmetricAdj | "periodic" => some .periodic
  | "order0" => some .order0 | "order0_adjoint" => some .order0Adj
  | "order1" => some .order1 | "order1_adjoint" => some .order1Adj
  | "order2" => some .order2 | "order2_adjoint" => some .order2Adj
  | _ => none

/-- One postfix token. -/
def step (tbl : Array SpD) (stack : List (Impl C)) (tok : String) : Option (List (Impl C)) := do
  let f := tok.splitOn ";"
  let sp (s : String) : Option (Space C) := (getSp tbl s).map SpD.toSpace
  match f, stack with
  | ["scal", s, c], st => do
      let S ← sp s; let c ← CRat.parse c
      some (.leaf (.scaling S c) :: st)
  | ["zero", d, r], st => do some (.leaf (.zero (← sp d) (← sp r)) :: st)
  | ["nonlin", d, r], st => do some (.leaf (.nonlin (← sp d) (← sp r) id) :: st)
  | ["opq", re, d, r, mf, mg], st => do
      -- unmodelled operator given by the matrices of its action and of its coded adjoint
      let re ← (if re = "1" then some true else if re = "0" then some false else none)
      let D ← sp d; let R ← sp r
      let Mf ← parseMat mf; let Mg ← parseMat mg
      let f : El C → El C := fun x _ i => sumTo (D.n 0) fun k => Mf i k * x 0 k
      let g : El C → El C := fun y _ i => sumTo (R.n 0) fun k => Mg i k * y 0 k
      some (.leaf (.opaque re D R f g) :: st)
  | ["mul", d, r, v], st => do
      let v ← parseVec (← getSp tbl d) v
      some (.leaf (.multiply (← sp d) (← sp r) v) :: st)
  | ["mulf", s, fld, v], st => do
      let v ← parseVec (← getSp tbl s) v
      some (.leaf (.multField (← sp s) (← sp fld) v) :: st)
  | ["inner", s, fld, v], st => do
      let v ← parseVec (← getSp tbl s) v
      some (.leaf (.inner (← sp s) (← sp fld) v) :: st)
  | ["re", s, r], st => do some (.leaf (.realPart (← sp s) (← sp r)) :: st)
  | ["im", s, r], st => do some (.leaf (.imagPart (← sp s) (← sp r)) :: st)
  | ["cemb", s, c, z], st => do
      some (.leaf (.cembed (← sp s) (← sp c) (← CRat.parse z)) :: st)
  | ["mat", d, r, m], st => do
      some (.leaf (.matrix (← sp d) (← sp r) (← parseMat m)) :: st)
  | ["pwi", v, x, g, w, pv], st => do
      let G ← parseVec (← getSp tbl v) g
      some (.leaf (.pwInner (← sp v) (← sp x) G (← parseFn w) (← parseFn pv)) :: st)
  | ["pwia", x, v, g, w, pv], st => do
      let G ← parseVec (← getSp tbl v) g
      some (.leaf (.pwInnerAdj (← sp x) (← sp v) G (← parseFn w) (← parseFn pv)) :: st)
  | ["samp", s, r, idx, b, cv], st => do
      let b ← (if b = "1" then some true else if b = "0" then some false else none)
      some (.leaf (.sampling (← sp s) (← sp r) (← parseIdx idx) b (← CRat.parse cv)) :: st)
  | ["wsum", r, s, idx, b, cv], st => do
      let b ← (if b = "1" then some true else if b = "0" then some false else none)
      some (.leaf (.wsum (← sp r) (← sp s) (← parseIdx idx) b (← CRat.parse cv)) :: st)
  | ["flat", s, r], st => do some (.leaf (.flatten (← sp s) (← sp r)) :: st)
  | ["flatinv", r, s], st => do some (.leaf (.flattenInv (← sp r) (← sp s)) :: st)
  | ["proj", p, q, idx], st => do
      some (.leaf (.proj (← sp p) (← sp q) (← parseIdx idx)) :: st)
  | ["projadj", q, p, idx], st => do
      some (.leaf (.projAdj (← sp q) (← sp p) (← parseIdx idx)) :: st)
  -- round 4: n-d leaves (shape = `n0,n1,…`; pts = one index row per axis, rows separated by `~`)
  | ["sampnd", s, r, sh, pts, b, cv], st => do
      let b ← (if b = "1" then some true else if b = "0" then some false else none)
      let sh ← parseNatList sh
      let pts ← (pts.splitOn "~").mapM parseNatList
      if pts.length != sh.length then none
      some (.leaf (.sampling (← sp s) (← sp r) (sampIdx sh pts) b (← CRat.parse cv)) :: st)
  | ["wsumnd", r, s, sh, pts, b, cv], st => do
      let b ← (if b = "1" then some true else if b = "0" then some false else none)
      let sh ← parseNatList sh
      let pts ← (pts.splitOn "~").mapM parseNatList
      if pts.length != sh.length then none
      some (.leaf (.wsum (← sp r) (← sp s) (sampIdx sh pts) b (← CRat.parse cv)) :: st)
  | ["flatf", s, r, sh], st => do
      some (.leaf (Leaf.flattenF (← sp s) (← sp r) (← parseNatList sh)) :: st)
  | ["flatfinv", r, s, sh], st => do
      some (.leaf (Leaf.flattenFInv (← sp r) (← sp s) (← parseNatList sh)) :: st)
  | ["mataxis", d, r, n, m, q, cw, mat], st => do
      -- cw = `-` (a weighting without `.const` on either side) or `wd,wr`
      let cw ← (if cw = "-" then some none else
        match cw.splitOn "," with
        | [a, b] => do some (some ((← CRat.parse a), (← CRat.parse b)))
        | _ => none)
      some (.leaf (Leaf.matrixAxis CRat.conj (← sp d) (← sp r) (← n.toNat?) (← m.toNat?)
        (← q.toNat?) cw (← parseMat mat)) :: st)
  | ["pderiv", s, n, q, me, pa, dx], st => do
      -- PartialDerivative along an axis of length n (q = product of the later axes), cell side dx
      let me ← parseMethod me; let pa ← parsePad pa; let n ← n.toNat?
      -- sizes for which `finite_diff` (or that of the adjoint) raises are not operators
      if (FiniteDiff.sizeCheck Gen.FiniteDiff.guards (Gen.FiniteDiff.tbl me pa) pa n).isSome then none
      if (FiniteDiff.sizeCheck Gen.FiniteDiff.guards
          (Gen.FiniteDiff.tbl (Gen.FiniteDiff.adjMethod me) (Gen.FiniteDiff.adjPad pa))
          (Gen.FiniteDiff.adjPad pa) n).isSome then none
      some (.leaf (Leaf.partialDeriv (← sp s) (← sp s) n (← q.toNat?) me pa (← CRat.parse dx)) :: st)
  | [gd, a, b, sh, me, pa, dxs], st => do
      -- Gradient (`grad;S;V;shape;method;pad;dx0,dx1,…`) / Divergence (`div;V;S;…`)
      if gd != "grad" && gd != "div" then none
      let me ← parseMethod me; let pa ← parsePad pa
      let sh ← parseNatList sh
      let dxl ← parseCList dxs
      if dxl.length != sh.length then none
      let ok := sh.all fun n =>
        (FiniteDiff.sizeCheck Gen.FiniteDiff.guards (Gen.FiniteDiff.tbl me pa) pa n).isNone &&
        (FiniteDiff.sizeCheck Gen.FiniteDiff.guards
          (Gen.FiniteDiff.tbl (Gen.FiniteDiff.adjMethod me) (Gen.FiniteDiff.adjPad pa))
          (Gen.FiniteDiff.adjPad pa) n).isNone
      if !ok then none
      let dxa := dxl.toArray
      let dx : Nat → C := fun i => dxa.getD i 0
      if gd = "grad" then
        some (gradTree (← sp a) (← sp b) sh me pa dx sh.length :: st)
      else
        some (divTree (← sp a) (← sp b) sh me pa dx sh.length :: st)
  | ["lap", a, sh, pa, dxs], st => do
      -- Laplacian (`lap;S;shape;pad;dx0,dx1,…`)
      let pa ← parsePad pa
      if Gen.FiniteDiff.lapRejected.contains pa then none
      let sh ← parseNatList sh
      let dxl ← parseCList dxs
      if dxl.length != sh.length then none
      let ok := sh.all fun n => [FiniteDiff.Method.forward, FiniteDiff.Method.backward].all fun me =>
        (FiniteDiff.sizeCheck Gen.FiniteDiff.guards (Gen.FiniteDiff.tbl me pa) pa n).isNone
      if !ok then none
      let dxa := dxl.toArray
      some (lapTree (← sp a) sh pa (fun i => dxa.getD i 0) sh.length :: st)
  | ["sum"], b :: a :: st => some (.sum a b :: st)
  | ["comp"], b :: a :: st => some (.comp a b :: st)
  | ["lsc", c], a :: st => do some (.lscal a (← CRat.parse c) :: st)
  | ["rsc", c], a :: st => do some (.rscal a (← CRat.parse c) :: st)
  | ["lvec", s, v], a :: st => do
      some (.lvec a (← parseVec (← getSp tbl s) v) :: st)
  | ["rvec", s, v], a :: st => do
      some (.rvec a (← parseVec (← getSp tbl s) v) :: st)
  | ["flv", v, fld, vec], a :: st => do
      some (.flvec a (← sp v) (← sp fld) (← parseVec (← getSp tbl v) vec) :: st)
  | ["pnil", k, d, r], st => do some (.pnil (← parseKind k) (← sp d) (← sp r) :: st)
  | ["pcons", r, c], a :: rest :: st => do
      if !rest.isBlock then none
      some (.pcons (← r.toNat?) (← c.toNat?) a rest :: st)
  | _, _ => none

def spSig (S : Space C) : String :=
  (if S.real then "r:" else "c:") ++ showNatList ((List.range S.m).map S.n) ++ ":w=" ++
    showCList ((List.range S.m).flatMap fun j => (List.range (S.n j)).map fun i => S.W j i)

/-- real-coordinate unit vectors of a space: entry (j,i) times 1 (and times I if complex) -/
def basis (S : Space C) : List (El C) :=
  (List.range S.m).flatMap fun j => (List.range (S.n j)).flatMap fun i =>
    let e (z : C) : El C := fun j' i' => if j' = j && i' = i then z else 0
    if S.real then [e 1] else [e 1, e cI]

def flatOut (S : Space C) (y : El C) : List C :=
  (List.range S.m).flatMap fun j => (List.range (S.n j)).map fun i => y j i

def matOf (t : Impl C) (dom ran : Space C) : String :=
  let cols := (basis dom).map fun x => showCList (flatOut ran (t.run CRat.conj cI x))
  if cols.isEmpty then "-" else "~".intercalate cols

def doTree (l : Line) : Option String := do
  let rec spaces (k : Nat) (fuel : Nat) (acc : Array SpD) : Option (Array SpD) :=
    match fuel with
    | 0 => some acc
    | fuel + 1 =>
      match l.get? s!"S{k}" with
      | none => some acc
      | some s => do
          let sp ← parseSpace s
          spaces (k + 1) fuel (acc.push sp)
  let tbl ← spaces 0 64 #[]
  let toks := (← l.get? "t").splitOn "|"
  let st ← toks.foldlM (step tbl) []
  match st with
  | [t] =>
    let A := matOf t t.dom t.ran
    match t.adj CRat.conj cI with
    | none => some s!"noadj A={A}"
    | some t' =>
      -- the adjoint is fed the unit vectors of the RANGE of t (as the harness does)
      let B := matOf t' t.ran t.dom
      match t'.adj CRat.conj cI with
      | none => some s!"ok ad={spSig t'.dom} ar={spSig t'.ran} A={A} B={B} AA=noadj"
      | some t'' =>
        some s!"ok ad={spSig t'.dom} ar={spSig t'.ran} A={A} B={B} AA={matOf t'' t.dom t.ran}"
  | _ => none

def handle (l : Line) : Option String :=
  match l.op with
  | "tree" => doTree l
  | _ => none

def main : IO Unit := driverLoop handle
