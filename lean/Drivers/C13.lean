import OdlModel.Common
import OdlModel.Model.CRat
import OdlModel.Model.FiniteDiff
import OdlModel.Gen.FiniteDiff
open OdlModel OdlModel.FiniteDiff

namespace C13Drv

def methodOf : String → Option Method
  | "central" => some .central | "forward" => some .forward | "backward" => some .backward
  | _ => none
def methodStr : Method → String
  | .central => "central" | .forward => "forward" | .backward => "backward"

def padOf : String → Option Pad
  | "constant" => some .constant | "symmetric" => some .symmetric
  | "symmetric_adjoint" => some .symmetricAdj | "periodic" => some .periodic
  | "order0" => some .order0 | "order0_adjoint" => some .order0Adj
  | "order1" => some .order1 | "order1_adjoint" => some .order1Adj
  | "order2" => some .order2 | "order2_adjoint" => some .order2Adj
  | _ => none
def padStr : Pad → String
  | .constant => "constant" | .symmetric => "symmetric" | .symmetricAdj => "symmetric_adjoint"
  | .periodic => "periodic" | .order0 => "order0" | .order0Adj => "order0_adjoint"
  | .order1 => "order1" | .order1Adj => "order1_adjoint" | .order2 => "order2"
  | .order2Adj => "order2_adjoint"

/-- only the generated supported lists make a name usable -/
def method? (l : Line) (k : String) : Option Method := do
  let m ← l.get? k >>= methodOf
  if Gen.FiniteDiff.methods.contains m then some m else none
def pad? (l : Line) (k : String) : Option Pad := do
  let p ← l.get? k >>= padOf
  if Gen.FiniteDiff.pads.contains p then some p else none

/-- `dx <= 0` raises ValueError in `finite_diff` (dx is a real float there). -/
def badDx (dx : CRat) : Bool := dx.im ≠ 0 || dx.re ≤ 0

def errStr : Err → String
  | .value => "err:value" | .index => "err:index"

def den := Gen.FiniteDiff.den
def tbl := Gen.FiniteDiff.tbl
def check (m : Method) (p : Pad) (n : Nat) : Option Err :=
  sizeCheck Gen.FiniteDiff.guards (tbl m p) p n

/-- `fd method= pad= n= dx= c= f=` → `ok r=…` -/
def doFd (l : Line) : Option String := do
  let m ← method? l "method"
  let p ← pad? l "pad"
  let n ← l.nat? "n"
  let dx ← l.crat? "dx"
  let c ← l.crat? "c"
  let f ← l.crats? "f"
  if f.length ≠ n then none
  if badDx dx then some "err:value" else
  match check m p n with
  | some e => some (errStr e)
  | none =>
    let fa := f.toArray
    let r := fdBy Gen.FiniteDiff.dxScale den (tbl m p) n c dx (fun i => fa.getD i 0)
    some s!"ok r={showCList ((List.range n).map r)}"

/-- `mat method= pad= n= dx= c=` → `ok b=<image of 0> m=<columns: image of e_j minus b>` -/
def doMat (l : Line) : Option String := do
  let m ← method? l "method"
  let p ← pad? l "pad"
  let n ← l.nat? "n"
  let dx ← l.crat? "dx"
  let c ← l.crat? "c"
  if badDx dx then some "err:value" else
  match check m p n with
  | some e => some (errStr e)
  | none =>
    let run (f : Nat → CRat) := (List.range n).map (fdBy Gen.FiniteDiff.dxScale den (tbl m p) n c dx f)
    let b := run (fun _ => 0)
    let cols := (List.range n).map fun j =>
      List.zipWith (· - ·) (run (fun i => if i = j then 1 else 0)) b
    some s!"ok b={showCList b} m={";".intercalate (cols.map showCList)}"

def unflat (shape : Nat → Nat) (a : Array CRat) : Idx → CRat :=
  fun x => a.getD ((x.1 * shape 1 + x.2.1) * shape 2 + x.2.2) 0

def box (shape : Nat → Nat) : List Idx :=
  (List.range (shape 0)).flatMap fun i => (List.range (shape 1)).flatMap fun j =>
    (List.range (shape 2)).map fun k => (i, j, k)

def parseParts (s : String) : Option (List (List CRat)) :=
  (s.splitOn ";").mapM parseCList

/-- `nd op=pd|grad|div|lap method= pad= ndim= shape=a,b,c axis= dx=… c= f=…` (C order;
`div`: components separated by `;`) → `ok r=…` (`grad`: components separated by `;`). -/
def doNd (l : Line) : Option String := do
  let op ← l.get? "op"
  let p ← pad? l "pad"
  let ndim ← l.nat? "ndim"
  let sh ← l.nats? "shape"
  let dxs ← l.crats? "dx"
  let c ← l.crat? "c"
  let parts ← l.get? "f" >>= parseParts
  if ndim = 0 || ndim > 3 || sh.length ≠ ndim || dxs.length ≠ ndim then none
  if dxs.any badDx then none
  let shape : Nat → Nat := fun a => if a < ndim then sh.getD a 1 else 1
  let dx : Nat → CRat := fun a => dxs.getD a 1
  let size := shape 0 * shape 1 * shape 2
  if parts.any (·.length ≠ size) then none
  let arrs := parts.map (fun p => unflat shape p.toArray)
  let dump (g : Idx → CRat) := showCList ((box shape).map g)
  let axesErr (m : Method) (axes : List Nat) : Option Err :=
    axes.findSome? (fun a => check m p (shape a))
  match op with
  | "pd" =>
    let m ← method? l "method"
    let a ← l.nat? "axis"
    if a ≥ ndim || arrs.length ≠ 1 then none
    match axesErr m [a] with
    | some e => some (errStr e)
    | none => some s!"ok r={dump (fdAxis den (tbl m p) shape a c (dx a) (arrs.getD 0 (fun _ => 0)))}"
  | "grad" =>
    let m ← method? l "method"
    if arrs.length ≠ 1 then none
    match axesErr m (List.range ndim) with
    | some e => some (errStr e)
    | none =>
      let g := gradient den (tbl m p) shape c dx (arrs.getD 0 (fun _ => 0))
      some s!"ok r={";".intercalate ((List.range ndim).map (fun a => dump (g a)))}"
  | "div" =>
    let m ← method? l "method"
    if arrs.length ≠ ndim then none
    match axesErr m (List.range ndim) with
    | some e => some (errStr e)
    | none =>
      some s!"ok r={dump (divergence den (tbl m p) shape ndim c dx (fun a => arrs.getD a (fun _ => 0)))}"
  | "lap" =>
    if arrs.length ≠ 1 then none
    if Gen.FiniteDiff.lapRejected.contains p then some "err:value" else
    match (axesErr .forward (List.range ndim)).orElse (fun _ => axesErr .backward (List.range ndim)) with
    | some e => some (errStr e)
    | none =>
      some s!"ok r={dump (laplacian den (tbl .forward p) (tbl .backward p) shape ndim c dx (arrs.getD 0 (fun _ => 0)))}"
  | _ => none

/-! any ndim (round 4): the `…N` definitions of the model on multi-indices `Nat → Nat` -/

def idxOf (l : List Nat) : IdxN := fun i => l.getD i 0

/-- all multi-indices of the box, C order -/
def boxN (shape : Nat → Nat) (ndim : Nat) : List (List Nat) :=
  (List.range ndim).foldl
    (fun acc a => acc.flatMap fun pre => (List.range (shape a)).map fun k => pre ++ [k]) [[]]

def unflatN (shape : Nat → Nat) (ndim : Nat) (a : Array CRat) : IdxN → CRat :=
  fun x => a.getD ((List.range ndim).foldl (fun acc i => acc * shape i + x i) 0) 0

/-- `ndn op=pd|grad|div|lap method= pad= ndim= shape=… axis= dx=… c= f=…`: as `nd`, but for any
`ndim ≥ 1` (≤ 8 here) and executed with `fdAxisN / gradientN / divergenceN / laplacianN`. -/
def doNdN (l : Line) : Option String := do
  let op ← l.get? "op"
  let p ← pad? l "pad"
  let ndim ← l.nat? "ndim"
  let sh ← l.nats? "shape"
  let dxs ← l.crats? "dx"
  let c ← l.crat? "c"
  let parts ← l.get? "f" >>= parseParts
  if ndim = 0 || ndim > 8 || sh.length ≠ ndim || dxs.length ≠ ndim then none
  if dxs.any badDx then none
  let shape : Nat → Nat := fun a => if a < ndim then sh.getD a 1 else 1
  let dx : Nat → CRat := fun a => dxs.getD a 1
  let size := (List.range ndim).foldl (fun acc a => acc * shape a) 1
  if parts.any (·.length ≠ size) then none
  let arrs := parts.map (fun p => unflatN shape ndim p.toArray)
  let pts := (boxN shape ndim).map idxOf
  let dump (g : IdxN → CRat) := showCList (pts.map g)
  let axesErr (m : Method) (axes : List Nat) : Option Err :=
    axes.findSome? (fun a => check m p (shape a))
  match op with
  | "pd" =>
    let m ← method? l "method"
    let a ← l.nat? "axis"
    if a ≥ ndim || arrs.length ≠ 1 then none
    match axesErr m [a] with
    | some e => some (errStr e)
    | none => some s!"ok r={dump (fdAxisN den (tbl m p) shape a c (dx a) (arrs.getD 0 (fun _ => 0)))}"
  | "grad" =>
    let m ← method? l "method"
    if arrs.length ≠ 1 then none
    match axesErr m (List.range ndim) with
    | some e => some (errStr e)
    | none =>
      let prog := Gen.FiniteDiff.accProg .grad
      if !prog.perAxis then none
      let g := loopCompN den (fun mm => tbl mm p) m shape c dx (arrs.getD 0 (fun _ => 0)) prog.steps
      some s!"ok r={";".intercalate ((List.range ndim).map (fun a => dump (g a)))}"
  | "div" =>
    let m ← method? l "method"
    if arrs.length ≠ ndim then none
    match axesErr m (List.range ndim) with
    | some e => some (errStr e)
    | none =>
      let prog := Gen.FiniteDiff.accProg .div
      if prog.perAxis then none
      some s!"ok r={dump (loopAccN den (fun mm => tbl mm p) m shape ndim c dx (fun a => arrs.getD a (fun _ => 0)) prog.steps)}"
  | "lap" =>
    if arrs.length ≠ 1 then none
    if Gen.FiniteDiff.lapRejected.contains p then some "err:value" else
    match (axesErr .forward (List.range ndim)).orElse (fun _ => axesErr .backward (List.range ndim)) with
    | some e => some (errStr e)
    | none =>
      let prog := Gen.FiniteDiff.accProg .lap
      if prog.perAxis then none
      some s!"ok r={dump (loopAccN den (fun mm => tbl mm p) .forward shape ndim c dx (fun _ => arrs.getD 0 (fun _ => 0)) prog.steps)}"
  | _ => none

/-- `inner ndim= shape= dx= bdry=0|1 x=… y=…` → `ok r=<x.inner(y)>` of the `uniform_discr`
space with these cell sides (`bdry=1`: `nodes_on_bdry=True`). -/
def doInner (l : Line) : Option String := do
  let ndim ← l.nat? "ndim"
  let sh ← l.nats? "shape"
  let dxs ← l.crats? "dx"
  let bdry ← l.nat? "bdry"
  let xs ← l.crats? "x"
  let ys ← l.crats? "y"
  if ndim = 0 || ndim > 8 || sh.length ≠ ndim || dxs.length ≠ ndim || bdry > 1 then none
  if dxs.any badDx then none
  let shape : Nat → Nat := fun a => if a < ndim then sh.getD a 1 else 1
  let dx : Nat → CRat := fun a => dxs.getD a 1
  let size := (List.range ndim).foldl (fun acc a => acc * shape a) 1
  if xs.length ≠ size || ys.length ≠ size then none
  let r := innerN (axisWeight (bdry == 1) shape dx) shape ndim CRat.conj
    (unflatN shape ndim xs.toArray) (unflatN shape ndim ys.toArray)
  some s!"ok r={r.str}"

def kindOf : String → Option Kind
  | "pd" => some .pd | "grad" => some .grad | "div" => some .div | "lap" => some .lap | _ => none
def kindStr : Kind → String
  | .pd => "pd" | .grad => "grad" | .div => "div" | .lap => "lap"

/-- LEGACY (driver op `cfgh`, not in the correspondence stream since round 5): the hand-written
twins `Op.adjoint` / `Op.derivative`.
`cfgh act=adjoint|derivative kind= method= pad= c=` → the instance the code returns:
`ok linear=<of the instance> neg=0|1 kind= method= pad= c= rlinear=<of the result>`, or
`err:value linear=…`. -/
def doCfg (l : Line) : Option String := do
  let act ← l.get? "act"
  let kind ← l.get? "kind" >>= kindOf
  let m ← method? l "method"
  let p ← pad? l "pad"
  let c ← l.crat? "c"
  let o : Op CRat := ⟨kind, m, p, c, false⟩
  let lin (r : Op CRat) := if r.isLinear Gen.FiniteDiff.affineAware then 1 else 0
  let show' (r : Op CRat) :=
    s!"ok linear={lin o} neg={if r.neg then 1 else 0} kind={kindStr r.kind} method={methodStr r.method} pad={padStr r.pad} c={r.c.str} rlinear={lin r}"
  match act with
  | "adjoint" =>
    match o.adjoint Gen.FiniteDiff.affineAware Gen.FiniteDiff.adjGuarded
        Gen.FiniteDiff.adjMethod Gen.FiniteDiff.adjPad with
    | some r => some (show' r)
    | none => some s!"err:value linear={lin o}"
  | "derivative" => some (show' o.derivative)
  | _ => none

/-- `cfg …` (alias `cfgg`): the returned instance is computed by `Op.adjointBy` /
`Op.derivativeBy` from the GENERATED `adjSpec` / `derivSpec` (round 4), not by the hand-written
`Op.adjoint` / `Op.derivative`. -/
def doCfgG (l : Line) : Option String := do
  let act ← l.get? "act"
  let kind ← l.get? "kind" >>= kindOf
  let m ← method? l "method"
  let p ← pad? l "pad"
  let c ← l.crat? "c"
  let o : Op CRat := ⟨kind, m, p, c, false⟩
  let lin (r : Op CRat) := if r.isLinear Gen.FiniteDiff.affineAware then 1 else 0
  let show' (r : Op CRat) :=
    s!"ok linear={lin o} neg={if r.neg then 1 else 0} kind={kindStr r.kind} method={methodStr r.method} pad={padStr r.pad} c={r.c.str} rlinear={lin r}"
  match act with
  | "adjoint" =>
    match o.adjointBy Gen.FiniteDiff.affineAware Gen.FiniteDiff.adjGuarded
        Gen.FiniteDiff.adjSpec Gen.FiniteDiff.adjMethod Gen.FiniteDiff.adjPad with
    | some r => some (show' r)
    | none => some s!"err:value linear={lin o}"
  | "derivative" => some (show' (o.derivativeBy Gen.FiniteDiff.derivSpec))
  | _ => none

/-- `supported method=<name> pad=<name>` → `ok method=0|1 pad=0|1`: membership of the (already
lower-cased) names in the GENERATED `_SUPPORTED_DIFF_METHODS` / `_SUPPORTED_PAD_MODES`; every
constructor and `finite_diff` raise ValueError for a name outside them. -/
def doSupported (l : Line) : Option String := do
  let m ← l.get? "method"
  let p ← l.get? "pad"
  let okM := match methodOf m with
    | some x => Gen.FiniteDiff.methods.contains x | none => false
  let okP := match padOf p with
    | some x => Gen.FiniteDiff.pads.contains x | none => false
  some s!"ok method={if okM then 1 else 0} pad={if okP then 1 else 0}"

/-- `tables` → the generated lists and dictionaries, for comparison with the live module. -/
def doTables (_ : Line) : Option String :=
  let ms := Gen.FiniteDiff.methods
  let ps := Gen.FiniteDiff.pads
  some (s!"ok den={den} methods={",".intercalate (ms.map methodStr)} pads={",".intercalate (ps.map padStr)} " ++
    s!"adjm={",".intercalate (ms.map fun m => methodStr m ++ ":" ++ methodStr (Gen.FiniteDiff.adjMethod m))} " ++
    s!"adjp={",".intercalate (ps.map fun p => padStr p ++ ":" ++ padStr (Gen.FiniteDiff.adjPad p))}")

end C13Drv
open C13Drv

def handle (l : Line) : Option String :=
  match l.op with
  | "fd" => doFd l
  | "mat" => doMat l
  | "nd" => doNd l
  | "ndn" => doNdN l
  | "tables" => doTables l
  | "cfg" => doCfgG l
  | "cfgg" => doCfgG l
  | "cfgh" => doCfg l
  | "inner" => doInner l
  | "supported" => doSupported l
  | _ => none

def main : IO Unit := driverLoop handle
