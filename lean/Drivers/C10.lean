import OdlModel.Common
import OdlModel.Model.ProxProg
import OdlModel.Model.ProxAux
import OdlModel.Model.ProxFloat
open OdlModel OdlModel.Prox OdlModel.ProxFloat

/-! Driver for C10: runs the model programs of `Model/ProxProg.lean` at `K = Float`
(IEEE doubles, exchanged as their 64-bit patterns in decimal, so nothing is rounded on the
wire).  One line in, one line out. -/

/-- `prox id=NAME flags=01 alias=0|1 n=N mc=M w=.. p=.. lam=.. sigma=.. gamma=.. radius=..
eps=.. a=.. b=.. x=.. j=.. g=.. sig=.. lo=.. up=..` (all reals as IEEE bit patterns).
Answers `ok b0=.. b1=.. b2=.. b3=.. b4=.. b5=..`; with alias=1 the output is b0. -/
def doProx (aux : Bool) (l : Line) : Option String := do
  let name ← l.get? "id"
  let flags := (l.get? "flags").getD ""
  let alias ← l.bool? "alias"
  let n ← l.nat? "n"
  let mc ← l.nat? "mc"
  let w ← l.f? "w"
  let p ← l.f? "p"
  let par : Par Float := {
    lam := ← l.f? "lam", sigma := ← l.f? "sigma", gamma := ← l.f? "gamma",
    radius := ← l.f? "radius", eps := ← l.f? "eps", cw := ← l.f? "cw",
    a := ← l.f? "a", b := ← l.f? "b" }
  let x ← l.fs? "x"
  let j ← l.fs? "j"
  let g ← l.fs? "g"
  let sig ← l.fs? "sig"
  let lo ← l.fs? "lo"
  let up ← l.fs? "up"
  let m : Buf → Vec Float := fun b i =>
    match b with
    | 0 => x.getD i nanF
    | 1 => j.getD i nanF
    | 2 => g.getD i nanF
    | 3 => sig.getD i nanF
    | 4 => lo.getD i nanF
    | 5 => up.getD i nanF
    | _ => nanF
  let iters := (l.nat? "iters").getD 1
  -- `prox`: the bodies of `prog`; `aux` (round 4): the bodies of `auxProg`
  -- (`_abs_pow_ufunc`, gradient operators); an id unknown to the requested table is `bad-op`
  let P : Stmt Float ←
    if aux && name == "rosen" then some (rosenFixed par.a n)
    else if aux then (parseAuxId name flags).map (auxProg (floatFns n mc w p) (floatAux n mc) par)
    else (parseId name flags).map (prog (floatFns n mc w p) par)
  -- `iters=K` (aliased only): K aliased calls on the same store (`aliasedCalls`)
  -- between the calls the store is re-tabulated (first n*mc entries of buffers 0-5) into arrays:
  -- the same values as `aliasedCalls … iters m`, without re-evaluating the functional memory of
  -- the earlier calls at every read
  let tabulate (mm : Nat → Vec Float) : Array (Array Float) :=
    ((List.range 6).map fun b => ((List.range (n * mc)).map (mm b)).toArray).toArray
  let ofTab (arrs : Array (Array Float)) : Nat → Vec Float :=
    fun b i => ((arrs.getD b #[]).getD i nanF)
  let st : St Float :=
    if alias && iters > 1 then
      let final := (List.range iters).foldl
        (fun (arrs : Array (Array Float)) _ =>
          tabulate (aliasedCalls (fun _ _ _ => nanF) P 1 (ofTab arrs))) (tabulate m)
      { mem := ofTab final, next := 10 }
    else match l.nat? "self" with
      -- `self=d`: x = out = the closed-over data object in buffer d (stratum self-alias)
      | some d => run (fun _ _ => nanF) P d d m
      | none => run (fun _ _ => nanF) P 0 (if alias then 0 else 1) m
  let dump (b : Nat) := showList showBits ((List.range (n * mc)).map (st.mem b))
  some s!"ok b0={dump 0} b1={dump 1} b2={dump 2} b3={dump 3} b4={dump 4} b5={dump 5}"

/-- `cprox id=NAME flags=.. alias=0|1 n=N <scalars as for prox> x=.. xi=.. j=.. ji=.. g=.. gi=..
sig=.. sigi=.. lo=.. loi=.. up=.. upi=..`: the SAME programs `prog` at `K = CF` (complex doubles,
real and imaginary parts as separate lists); only the arithmetic-only bodies (`arithOnly`).
Answers `ok b0=.. c0=.. … b5=.. c5=..` (real parts `b`, imaginary parts `c`). -/
def doCProx (l : Line) : Option String := do
  let name ← l.get? "id"
  let flags := (l.get? "flags").getD ""
  let id ← parseId name flags
  if !arithOnly id then none
  let alias ← l.bool? "alias"
  let n ← l.nat? "n"
  let cf (k : String) : Option CF := (l.f? k).map cOfF
  let par : Par CF := {
    lam := ← cf "lam", sigma := ← cf "sigma", gamma := ← cf "gamma",
    radius := ← cf "radius", eps := ← cf "eps", cw := ← cf "cw", a := ← cf "a", b := ← cf "b" }
  let buf (k : String) : Option (Array Float × Array Float) := do
    some (← l.fs? k, ← l.fs? (k ++ "i"))
  let x ← buf "x"
  let j ← buf "j"
  let g ← buf "g"
  let sig ← buf "sig"
  let lo ← buf "lo"
  let up ← buf "up"
  let rd (a : Array Float × Array Float) (i : Nat) : CF := ⟨a.1.getD i nanF, a.2.getD i nanF⟩
  let m : Buf → Vec CF := fun b i =>
    match b with
    | 0 => rd x i | 1 => rd j i | 2 => rd g i | 3 => rd sig i | 4 => rd lo i | 5 => rd up i
    | _ => nanC
  let st := run (fun _ _ => nanC) (prog complexFns par id) 0 (if alias then 0 else 1) m
  let dumpR (b : Nat) := showList showBits ((List.range n).map (fun i => (st.mem b i).re))
  let dumpI (b : Nat) := showList showBits ((List.range n).map (fun i => (st.mem b i).im))
  some ("ok " ++ " ".intercalate ((List.range 6).map fun b => s!"b{b}={dumpR b} c{b}={dumpI b}"))

/-- `class name=PythonClassName` answers the model program covering it. -/
def doClass (l : Line) : Option String := do
  let name ← l.get? "name"
  match classTable.find? (·.1 = name) with
  | some (_, p) => some s!"ok prog={p}"
  | none => some "uncovered"

def handle (l : Line) : Option String :=
  match l.op with
  | "prox" => doProx false l
  | "aux" => doProx true l
  | "cprox" => doCProx l
  | "auxtable" => some ("ok classes=" ++ ",".intercalate (auxTable.map (·.1)))
  | "class" => doClass l
  | "table" => some ("ok classes=" ++ ",".intercalate (classTable.map (·.1)))
  | _ => none

def main : IO Unit := driverLoop handle
