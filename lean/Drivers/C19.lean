import OdlModel.Common
import OdlModel.Model.Geometry
open OdlModel OdlModel.Geometry

/-! Driver for C19: evaluates the geometry model at `Rat`.  All numbers on the wire are
exact rationals (the harness sends the exact values of the floats the real code uses). -/

/-- Executable stand-in for the square root (Newton iteration on 100-bit dyadic rationals,
relative error far below 1e-25 on the data of the correspondence runs). -/
def roundBits (x : Rat) : Rat :=
  let k : Nat := 2 ^ 100
  ((x * k).floor : Int) / (k : Rat)

def sqrtApprox (a : Rat) : Rat :=
  if a ≤ 0 then 0 else
  let rec go (n : Nat) (x : Rat) : Rat :=
    match n with
    | 0 => x
    | n + 1 => go n (roundBits ((x + a / x) / 2))
  go 70 (roundBits ((1 + a) / 2))

def v2? (l : Line) (k : String) : Option (V2 Rat) :=
  match l.rats? k with
  | some [a, b] => some ⟨a, b⟩
  | _ => none

def v3? (l : Line) (k : String) : Option (V3 Rat) :=
  match l.rats? k with
  | some [a, b, c] => some ⟨a, b, c⟩
  | _ => none

def s2 (v : V2 Rat) : String := showRatList [v.x, v.y]
def s3 (v : V3 Rat) : String := showRatList [v.x, v.y, v.z]
def sm2 (m : M2 Rat) : String := showRatList [m.a11, m.a12, m.a21, m.a22]
def sm3 (m : M3 Rat) : String :=
  showRatList [m.a11, m.a12, m.a13, m.a21, m.a22, m.a23, m.a31, m.a32, m.a33]

def p1? (l : Line) : Option (P1 Rat) :=
  match l.rats? "dp" with
  | some [u, c, s] => some ⟨u, c, s⟩
  | _ => none

def p2? (l : Line) : Option (P2 Rat) :=
  match l.rats? "dp" with
  | some [u, v, c0, s0, c1, s1] => some ⟨u, v, c0, s0, c1, s1⟩
  | _ => none

def det2? (l : Line) : Option (Det2 Rat) := do
  let a ← v2? l "a0"
  match l.get? "det" with
  | some "flat" => some (.flat a)
  | some "circ" => do let r ← l.rat? "cr"; some (.circ a r)
  | _ => none

def det3? (l : Line) : Option (Det3 Rat) := do
  let a ← v3? l "a0"
  let b ← v3? l "a1"
  match l.get? "det" with
  | some "flat" => some (.flat a b)
  | some "cyl" => do let r ← l.rat? "cr"; some (.cyl a b r)
  | some "sph" => do let r ← l.rat? "cr"; some (.sph a b r)
  | _ => none

/-- rotation matrix of a 2d class: `ang=c,s` -/
def rot2? (l : Line) : Option (M2 Rat) :=
  match l.rats? "ang" with
  | some [c, s] => some (euler2 c s)
  | _ => none

/-- rotation matrix of a 3d class: `rk=axis ax=… ang=c,s` or `rk=euler ang=cφ,sφ,cθ,sθ,cψ,sψ` -/
def rot3? (l : Line) : Option (M3 Rat) :=
  match l.get? "rk", l.rats? "ang" with
  | some "axis", some [c, s] => do let a ← v3? l "ax"; some (axisRot a c s)
  | some "euler", some [cph, sph, cth, sth, cps, sps] => some (euler3 cph sph cth sth cps sps)
  | _, _ => none

/-- `pt kind=par2 …` one evaluation point of a 2d parallel geometry -/
def doPar2 (l : Line) : Option String := do
  let R ← rot2? l
  let g : Par2 Rat := ⟨← v2? l "pos", ← v2? l "t", ← det2? l⟩
  let p ← p1? l
  some s!"ok rot={sm2 R} ref={s2 (g.refpoint R)} pos={s2 (g.detPoint R p)} d2sn={s2 (g.detToSrc sqrtApprox R p)} axes={s2 (g.detAxis R)} drv={s2 (g.det.deriv p)} nrm={s2 (g.det.normal sqrtApprox p)}"

def doPar3 (l : Line) : Option String := do
  let R ← rot3? l
  let g : Par3 Rat := ⟨← v3? l "pos", ← v3? l "t", ← det3? l⟩
  let p ← p2? l
  some s!"ok rot={sm3 R} ref={s3 (g.refpoint R)} pos={s3 (g.detPoint R p)} d2sn={s3 (g.detToSrc sqrtApprox R p)} axes={s3 (g.detAxis0 R)};{s3 (g.detAxis1 R)} drv={s3 (g.det.deriv0 p)};{s3 (g.det.deriv1 p)} nrm={s3 (g.det.normal sqrtApprox p)}"

def doFan (l : Line) : Option String := do
  let R ← rot2? l
  let g : Fan Rat := ⟨← v2? l "d", ← v2? l "t", ← l.rat? "rs", ← l.rat? "rd", ← det2? l⟩
  let p ← p1? l
  let ssh ← v2? l "ssh"
  let dsh ← v2? l "dsh"
  let n := g.detToSrc R ssh dsh p
  some s!"ok rot={sm2 R} ref={s2 (g.refpoint R dsh)} src={s2 (g.srcPos R ssh)} pos={s2 (g.detPoint R dsh p)} d2s={s2 n} d2sn={s2 (g.detToSrcN sqrtApprox R ssh dsh p)} axes={s2 (g.detAxis R)} drv={s2 (g.det.deriv p)} nrm={s2 (g.det.normal sqrtApprox p)}"

def doCone (l : Line) : Option String := do
  let R ← rot3? l
  let g : Cone Rat := ⟨← v3? l "ax", ← v3? l "d", ← v3? l "t", ← l.rat? "rs", ← l.rat? "rd",
    ← l.rat? "pitch", ← l.rat? "off", ← l.rat? "kt", ← det3? l⟩
  let p ← p2? l
  let ssh ← v3? l "ssh"
  let dsh ← v3? l "dsh"
  let turns ← l.rat? "turns"
  let n := g.detToSrc R turns ssh dsh p
  if Cone.ctorRejects (1 / 10 ^ 20 : Rat) g.d g.axis then some "err:value" else
  some s!"ok rot={sm3 R} ref={s3 (g.refpoint R turns dsh)} src={s3 (g.srcPos R turns ssh)} pos={s3 (g.detPoint R turns dsh p)} d2s={s3 n} d2sn={s3 (g.detToSrcN sqrtApprox R turns ssh dsh p)} axes={s3 (g.detAxis0 R)};{s3 (g.detAxis1 R)} drv={s3 (g.det.deriv0 p)};{s3 (g.det.deriv1 p)} nrm={s3 (g.det.normal sqrtApprox p)}"

def doPt (l : Line) : Option String :=
  match l.get? "kind" with
  | some "par2" => doPar2 l
  | some "par3" => doPar3 l
  | some "fan" => doFan l
  | some "cone" => doCone l
  | _ => none

/-- list of shapes on the wire: shapes separated by `;`, a scalar is `-` -/
def shapes? (l : Line) (k : String) : Option (List (List Nat)) := do
  let s ← l.get? k
  (s.splitOn ";").mapM parseNatList

/-- `shape m=<shapes> d=<shapes> ndim=N` → `ok shape=… doc=…` / `err` -/
def doShape (l : Line) : Option String := do
  let m ← shapes? l "m"
  let d ← shapes? l "d"
  let ndim ← l.nat? "ndim"
  let doc := match docShape m d ndim with
    | some sh => showNatList sh
    | none => "none"
  match evalShape m d ndim with
  | some sh => some s!"ok shape={showNatList sh} doc={doc}"
  | none => some s!"err doc={doc}"

def showPos2 (g : PosState (V2 Rat)) : String := s!"{s2 g.pos}/{g.cb}"
def showPos3 (g : PosState (V3 Rat)) : String := s!"{s3 g.pos}/{g.cb}"

/-- `getitem2 how=ctor|frommatrix p=… t=… (m=a11,a12,a21,a22)` → positions of the receiver
before, of the receiver after `__getitem__`, and of the slice. -/
def doGetitem2 (l : Line) : Option String := do
  let t ← v2? l "t"
  let cb ← l.bool? "cb"
  let g ← match l.get? "how" with
    | some "ctor" => do let p ← v2? l "p"; some (par2Ctor p t cb)
    | some "frommatrix" =>
      match l.rats? "m" with
      | some [a, b, c, d] => some { par2FromMatrix ⟨a, b, c, d⟩ t with cb := cb }
      | _ => none
    | _ => none
  let (g', s) := par2Getitem g
  some s!"ok before={showPos2 g} after={showPos2 g'} slice={showPos2 s}"

/-- `getitem3 how=ctor|frommatrix (p=…|p=none) dflt=… t=… n=K` → positions of the receiver
before, and after each of `n` successive `__getitem__` calls on the receiver:
`after_k`, `slice_k`. -/
def doGetitem3 (l : Line) : Option String := do
  let t ← v3? l "t"
  let dflt ← v3? l "dflt"
  let n ← l.nat? "n"
  let cb ← l.bool? "cb"
  let g ← match l.get? "how" with
    | some "ctor" =>
      match l.get? "p" with
      | some "none" => some (par3Ctor dflt none t cb)
      | _ => do
        let p ← v3? l "p"
        some (par3Ctor dflt (some p) t cb)
    | some "frommatrix" =>
      match l.rats? "m" with
      | some [a, b, c, d, e, f, g, h, i] =>
          some { par3FromMatrix ⟨a, b, c, d, e, f, g, h, i⟩ t with cb := cb }
      | _ => none
    | _ => none
  let rec go (k : Nat) (g : PosState (V3 Rat)) (acc : List String) : List String :=
    match k with
    | 0 => acc.reverse
    | k + 1 =>
      let (g', s) := par3Getitem dflt g
      go k g' (s!"{showPos3 g'}&{showPos3 s}" :: acc)
  some s!"ok before={showPos3 g} steps={"|".intercalate (go n g [])}"

/-- `factory kind=par|fan|coneh …` detector extents -/
def doFactory (l : Line) : Option String := do
  match l.get? "kind" with
  | some "par" => do let rho ← l.rat? "rho"; some s!"ok hw={showRat (parHalfWidth rho)}"
  | some "fan" => do
      let rho ← l.rat? "rho"; let rs ← l.rat? "rs"; let rd ← l.rat? "rd"
      if rs = 0 then none else some s!"ok hw={showRat (fanHalfWidth rho rs rd)}"
  | some "coneh" => do
      let zmax ← l.rat? "zmax"; let hyp ← l.rat? "hyp"; let rs ← l.rat? "rs"; let rd ← l.rat? "rd"
      if hyp = 0 then none else some s!"ok hh={showRat (coneHalfHeightRaw zmax hyp rs rd)}"
  | some "helh" => do
      let pt ← l.rat? "pt"; let rho ← l.rat? "rho"; let rs ← l.rat? "rs"; let rd ← l.rat? "rd"
      let ang ← l.rat? "ang"
      if rs = 0 then none else some s!"ok hh={showRat (helicalHalfHeight pt rho rs rd ang)}"
  | some "coord" => do
      let rs ← l.rat? "rs"; let rd ← l.rat? "rd"; let xc ← l.rat? "xc"; let xt ← l.rat? "xt"
      if rs + xc = 0 then none else some s!"ok u={showRat (fanDetCoord rs rd xc xt)}"
  | _ => none

/-- `frame kind=2d|axis|euler v=<normalised given vector>` → the derived default frame.
Opposite and nearly opposite vectors (`1 + ⟨u,v⟩ < 1/1000`: the collinear branch of
`rotation_matrix_from_to`, and the region where the division by `1 + ⟨u,v⟩` is
ill-conditioned) are outside the model: `err:opposite`. -/
def doFrame (l : Line) : Option String := do
  match l.get? "kind" with
  | some "2d" => do
      let p ← v2? l "v"
      let (q, a) := frame2 p
      some s!"ok prin={s2 q} a0={s2 a}"
  | some "axis" => do
      let a ← v3? l "v"
      if 1 + V3.dot (⟨0, 0, 1⟩ : V3 Rat) a < 1 / 1000 then some "err:opposite" else
      let (q, pos, a0, a1) := frameAxis a
      some s!"ok prin={s3 q} pos={s3 pos} a0={s3 a0} a1={s3 a1}"
  | some "euler" => do
      let p ← v3? l "v"
      if 1 + V3.dot (⟨0, 1, 0⟩ : V3 Rat) p < 1 / 1000 then some "err:opposite" else
      let (q, a0, a1) := frameEuler p
      some s!"ok prin={s3 q} a0={s3 a0} a1={s3 a1}"
  | _ => none

/-- `conector d=… ax=…` → does the cone beam constructor accept these (normalised) vectors? -/
def doConeCtor (l : Line) : Option String := do
  let d ← v3? l "d"
  let a ← v3? l "ax"
  some (if Cone.ctorRejects (1 / 10 ^ 20 : Rat) d a then "err:value" else "ok")

/-- `fromto dim=2|3 u=… v=… pi=cosπ,sinπ` → `rotation_matrix_from_to(u, v)` as coded, with all
its branches, on the raw arguments: `ok br=<branch> m=…` / `err:value`. -/
def doFromTo (l : Line) : Option String := do
  let tol2 : Rat := 1 / 10 ^ 20
  match l.nat? "dim" with
  | some 2 => do
      let u ← v2? l "u"
      let v ← v2? l "v"
      match rotFromToCode2 sqrtApprox tol2 u v with
      | none => some "err:value"
      | some m => some s!"ok br=2d m={sm2 m}"
  | some 3 => do
      let u ← v3? l "u"
      let v ← v3? l "v"
      let (cpi, spi) ← match l.rats? "pi" with
        | some [c, s] => some (c, s)
        | _ => none
      match rotFromToCode3 sqrtApprox tol2 cpi spi u v with
      | none => some "err:value"
      | some m =>
        let un := V3.normalize sqrtApprox u
        let vn := V3.normalize sqrtApprox v
        let br := if (V3.cross un vn).normSq < tol2 then
            (if 0 < V3.dot un vn then "same" else "opposite") else "generic"
        some s!"ok br={br} m={sm3 m}"
  | _ => none

/-- `tsys dim=2|3 d=<default> p=<given> pi=cosπ,sinπ` → the matrix `transform_system` applies to
the default vectors: `ok br=ident|rot m=…` / `err:value`. -/
def doTsys (l : Line) : Option String := do
  let tol2 : Rat := 1 / 10 ^ 20
  let atol : Rat := 1 / 10 ^ 8
  match l.nat? "dim" with
  | some 2 => do
      let d ← v2? l "d"
      let p ← v2? l "p"
      match tsMatrix2 sqrtApprox tol2 atol d p with
      | none => some "err:value"
      | some m =>
        let br := if m == M2.one then "ident" else "rot"
        some s!"ok br={br} m={sm2 m}"
  | some 3 => do
      let d ← v3? l "d"
      let p ← v3? l "p"
      let (cpi, spi) ← match l.rats? "pi" with
        | some [c, s] => some (c, s)
        | _ => none
      match tsMatrix3 sqrtApprox tol2 atol cpi spi d p with
      | none => some "err:value"
      | some m =>
        let br := if m == M3.one then "ident" else "rot"
        some s!"ok br={br} m={sm3 m}"
  | _ => none

/-- `axrot ax=… ang=c,s v=… sh=…` → `axis_rotation(axis, angle, v, axis_shift)` -/
def doAxRot (l : Line) : Option String := do
  let a ← v3? l "ax"
  let v ← v3? l "v"
  let sh ← v3? l "sh"
  match l.rats? "ang" with
  | some [c, s] => some s!"ok r={s3 (axisRotation a c s v sh)}"
  | _ => none

def showFan (g : Option (FanState Rat)) : String :=
  match g with
  | none => "err"
  | some g => s!"{s2 g.d}|{s2 g.axis}|{s2 g.t}|{showRat g.rs}|{showRat g.rd}|{g.cb}"

/-- `fangetitem s2d=… axis=none|a,b t=… rs= rd= cb=` → state after the constructor and state of the
slice `geom[i:j]` -/
def doFanGetitem (l : Line) : Option String := do
  let tol2 : Rat := 1 / 10 ^ 20
  let atol : Rat := 1 / 10 ^ 8
  let s2d ← v2? l "s2d"
  let t ← v2? l "t"
  let rs ← l.rat? "rs"
  let rd ← l.rat? "rd"
  let cb ← l.bool? "cb"
  let ax ← match l.get? "axis" with
    | some "none" => some none
    | _ => do let a ← v2? l "axis"; some (some a)
  let g := fanCtor sqrtApprox tol2 atol s2d ax t rs rd cb
  let sl := match g with
    | none => none
    | some g => fanGetitem sqrtApprox tol2 atol g
  some s!"ok geom={showFan g} slice={showFan sl}"

def handle (l : Line) : Option String :=
  match l.op with
  | "fangetitem" => doFanGetitem l
  | "axrot" => doAxRot l
  | "tsys" => doTsys l
  | "fromto" => doFromTo l
  | "pt" => doPt l
  | "shape" => doShape l
  | "getitem2" => doGetitem2 l
  | "getitem3" => doGetitem3 l
  | "factory" => doFactory l
  | "frame" => doFrame l
  | "conector" => doConeCtor l
  | _ => none

def main : IO Unit := driverLoop handle
