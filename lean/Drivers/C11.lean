import OdlModel.Common
import OdlModel.Model.Solvers
import OdlModel.Model.SolversInst
open OdlModel OdlModel.Solvers OdlModel.SolversInst

/-!
Driver for C11: the solver state machines of `Model/Solvers.lean`, instantiated with
rational matrices (for `L`, `L*`), entry-wise maps (`PSpec`, for proximals / gradients) and
rational step sizes sent by the harness.  One line in, one line out:
`ok log=<iterate after iteration 1>;<…2>;… <final state components>`.
-/

abbrev RV := Vec Rat

def junk (n : Nat) : RV := List.replicate n (-77 : Rat)   -- content of uninitialised temporaries

def shape? (A : Mat Rat) (r c : Nat) : Option Unit := if A.wf r c then some () else none
def len? (v : List Rat) (n : Nat) : Option Unit := if v.length = n then some () else none

/-- `admm variant=opt|simple A= At= pf= pg= tau= sigma= x0= n=` -/
def doAdmm (l : Line) : Option String := do
  let variant ← l.get? "variant"
  let A ← Line.matR? l "A"
  let At ← Line.matR? l "At"
  let pf ← Line.pspec? l "pf"
  let pg ← Line.pspec? l "pg"
  let tau ← l.rat? "tau"
  let sigma ← l.rat? "sigma"
  let x0 ← l.rats? "x0"
  let n ← l.nat? "n"
  let dv := x0.length
  let dw := A.rows
  shape? A dw dv; shape? At dv dw
  if sigma = 0 then none
  let P : AdmmP Rat RV RV := ⟨A.mulVec, At.mulVec, pf.eval, pg.eval, tau, sigma⟩
  match variant with
  | "opt" =>
    let (s, log) := runLog P.stepOpt (·.x) n (P.initOpt x0 (Vec.zero dw) (junk dv)) []
    some s!"ok log={showLog log} x={showVec s.x} z={showVec s.z} u={showVec s.u}"
  | "simple" =>
    let (s, log) := runLog P.stepSimple (·.x) n (P.initSimple x0 (Vec.zero dw)) []
    some s!"ok log={showLog log} x={showVec s.x} z={showVec s.z} u={showVec s.u}"
  | _ => none

def handle (l : Line) : Option String :=
  match l.op with
  | "admm" => doAdmm l
  | _ => none

def main : IO Unit := driverLoop handle
