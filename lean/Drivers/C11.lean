import OdlModel.Common
import OdlModel.Model.Solvers
import OdlModel.Model.SolversInst
import OdlModel.Model.SolversResume
open OdlModel OdlModel.Solvers OdlModel.SolversInst

/-!
Driver for C11: the solver state machines of `Model/Solvers.lean`, instantiated with
rational matrices (for `L`, `L*`), entry-wise maps (`PSpec`, for proximals / gradients) and
rational step sizes sent by the harness.  One line in, one line out:
`ok log=<iterate after iteration 1>;<…2>;… <final state components>`.
-/

abbrev RV := Vec Rat

def junk (n : Nat) : RV := List.replicate n (-77 : Rat)   -- content of uninitialised temporaries

def shape? (A : Mat Rat) (r c : Nat) : Option Unit := if A.wf r c then some () else none
def len? (v : List Rat) (n : Nat) : Option Unit := if v.length = n then some () else none

/-- `admm variant=opt|simple A= At= pf= pg= tau= sigma= x0= n=` -/
def doAdmm (l : Line) : Option String := do
  let variant ← l.get? "variant"
  let A ← Line.matR? l "A"
  let At ← Line.matR? l "At"
  let pf ← Line.pspec? l "pf"
  let pg ← Line.pspec? l "pg"
  let tau ← l.rat? "tau"
  let sigma ← l.rat? "sigma"
  let x0 ← l.rats? "x0"
  let n ← l.nat? "n"
  let dv := x0.length
  let dw := A.rows
  shape? A dw dv; shape? At dv dw
  if sigma = 0 then none
  let P : AdmmP Rat RV RV := ⟨A.mulVec, At.mulVec, pf.eval, pg.eval, tau, sigma⟩
  match variant with
  | "opt" =>
    let (s, log) := runLog P.stepOpt (·.x) n (P.initOpt x0 (Vec.zero dw) (junk dv)) []
    some s!"ok log={showLog log} x={showVec s.x} z={showVec s.z} u={showVec s.u}"
  | "simple" =>
    let (s, log) := runLog P.stepSimple (·.x) n (P.initSimple x0 (Vec.zero dw)) []
    some s!"ok log={showLog log} x={showVec s.x} z={showVec s.z} u={showVec s.u}"
  | _ => none

def optSpec? (l : Line) (k : String) : Option (Option (PSpec Rat)) :=
  match l.get? k with
  | some "none" => some none
  | some _ => (Line.pspec? l k).map some
  | none => none

def fam (f : List α) (d : α) : Nat → α := fun i => f.getD i d

def showFam (f : Nat → RV) (m : Nat) : String := showLog ((List.range m).map f)

/-- `adupdates variant=opt|simple m= A0= At0= p0= … stepsize= inner= rid= cb=inner|outer x0= n=` -/
def doAdupdates (l : Line) : Option String := do
  let variant ← l.get? "variant"
  let m ← l.nat? "m"
  let As ← Line.family l "A" m parseRatMat
  let Ats ← Line.family l "At" m parseRatMat
  let ps ← Line.family l "p" m parsePSpec
  let stepsize ← l.rat? "stepsize"
  -- `in0=1/2` (scalar) or `in0=v:1/8,3/8` (element / array: pointwise)
  let inner ← Line.family l "in" m (fun t =>
    if t.startsWith "v:" then (parseRatList (t.drop 2).toString).map (InnerSS.pointwise (K := Rat) ∘ Vec.ofList)
    else (parseRat t).map InnerSS.scalar)
  let rid ← l.nats? "rid"
  let cb ← l.get? "cb"
  let x0 ← l.rats? "x0"
  let n ← l.nat? "n"
  if stepsize = 0 || inner.length ≠ m || rid.length ≠ m then none
  let dv := x0.length
  for A in As do shape? A (Mat.rows A) dv
  let P : AduP Rat RV RV :=
    { m := m, L := fun i => Mat.mulVec (fam As [] i), Ladj := fun i => Mat.mulVec (fam Ats [] i),
      prox := fun i => (fam ps .id i).eval, proxSimple := fun i => (fam ps .id i).eval,
      stepsize := stepsize, inner := fam inner (.scalar 0),
      mulW := Vec.mul, rid := fam rid 0, cbInner := cb = "inner" }
  let duals0 : Nat → RV := fun i => Vec.zero (Mat.rows (fam As [] i))
  match variant with
  | "opt" =>
    let s := iter P.stepOpt n ⟨x0, duals0, fun _ => junk 1, []⟩
    some s!"ok log={showLog s.log} x={showVec s.x} duals={showFam s.duals m}"
  | "simple" =>
    let s := iter P.stepSimple n ⟨x0, duals0⟩
    some s!"ok x={showVec s.x} duals={showFam s.duals m}"
  | _ => none

/-- `dpdc variant=opt|simple A= At= pf= gphi= pgc= gamma= mu= x0= y0= n=` -/
def doDpdc (l : Line) : Option String := do
  let variant ← l.get? "variant"
  let A ← Line.matR? l "A"
  let At ← Line.matR? l "At"
  let pf ← Line.pspec? l "pf"
  let gphi ← Line.pspec? l "gphi"
  let pgc ← Line.pspec? l "pgc"
  let gamma ← l.rat? "gamma"
  let mu ← l.rat? "mu"
  let x0 ← l.rats? "x0"
  let y0 ← l.rats? "y0"
  let n ← l.nat? "n"
  shape? A y0.length x0.length; shape? At x0.length y0.length
  let P : DpdcP Rat RV RV := ⟨A.mulVec, At.mulVec, pf.eval, gphi.eval, pgc.eval, gamma, mu⟩
  let step ← match variant with
    | "opt" => some P.stepOpt
    | "simple" => some P.stepSimple
    | _ => none
  let (s, log) := runLog step (·.1) n ((x0 : RV), (y0 : RV)) []
  some s!"ok log={showLog log} x={showVec s.1} y={showVec s.2}"

/-- `sq=1`: the operator is the NON-LINEAR `x ↦ A (x ⊙ x)` (ODL: `MatrixOperator(A) * PowerOperator(2)`),
whose derivative at `x` is `A diag(2x)` with adjoint `w ↦ 2 x ⊙ (Aᵀ w)` — the point of
linearisation matters. -/
def nlOp (sq : Bool) (A : Mat Rat) : RV → RV :=
  if sq then fun x => A.mulVec (Vec.mul x x) else A.mulVec
def nlAdj (sq : Bool) (At : Mat Rat) : RV → RV → RV :=
  if sq then fun x w => (2 : Rat) • Vec.mul x (At.mulVec w) else fun _ => At.mulVec

/-- `landweber A= At= rhs= omega= proj=<pspec>|none x0= n=` -/
def doLandweber (l : Line) : Option String := do
  let A ← Line.matR? l "A"
  let At ← Line.matR? l "At"
  let rhs ← l.rats? "rhs"
  let omega ← l.rat? "omega"
  let proj ← optSpec? l "proj"
  let x0 ← l.rats? "x0"
  let n ← l.nat? "n"
  shape? A rhs.length x0.length; shape? At x0.length rhs.length
  let sq := l.get? "sq" = some "1"
  let P : LandweberP Rat RV RV := ⟨nlOp sq A, nlAdj sq At, rhs, omega, proj.map (·.eval)⟩
  let (s, log) := runLog P.step (·.x) n (P.init x0 (junk rhs.length) (junk x0.length)) []
  some s!"ok log={showLog log} x={showVec s.x}"

/-- `kaczmarz m= A0= At0= rhs0= … omega= proj= rid= cb= x0= n=` -/
def doKaczmarz (l : Line) : Option String := do
  let m ← l.nat? "m"
  let As ← Line.family l "A" m parseRatMat
  let Ats ← Line.family l "At" m parseRatMat
  let rhs ← Line.family l "rhs" m parseRatList
  let omega ← l.rats? "omega"
  let proj ← optSpec? l "proj"
  let rid ← l.nats? "rid"
  let cb ← l.get? "cb"
  let x0 ← l.rats? "x0"
  let n ← l.nat? "n"
  if omega.length ≠ m || rid.length ≠ m then none
  let P : KaczmarzP Rat RV RV :=
    { m := m, ops := fun i => Mat.mulVec (fam As [] i), dAdj := fun i _ => Mat.mulVec (fam Ats [] i),
      rhs := fam rhs [], omega := fam omega 0, proj := proj.map (·.eval), rid := fam rid 0,
      cbInner := cb = "inner" }
  -- `orders=0,1;1,0;…` (random=True: the permutations numpy drew), else the fixed order
  let s0 : KaczmarzS RV RV := ⟨x0, fun _ => junk 1, junk x0.length, []⟩
  let s ← match l.get? "orders" with
    | none => some (iter P.step n s0)
    | some o => do
        let os ← (o.splitOn ";").mapM parseNatList
        if os.length ≠ n || os.any (fun p => p.any (· ≥ m)) then none
        some (P.runOrd os s0)
  some s!"ok log={showLog s.log} x={showVec s.x}"

/-- `proxgrad pf= gg= gamma= lam= x0= n=` -/
def doProxGrad (l : Line) : Option String := do
  let pf ← Line.pspec? l "pf"
  let gg ← Line.pspec? l "gg"
  let gamma ← l.rat? "gamma"
  let lam ← l.rat? "lam"
  let x0 ← l.rats? "x0"
  let n ← l.nat? "n"
  let P : ProxGradP Rat RV := ⟨pf.eval, gg.eval, gamma, fun _ => lam⟩
  let (s, log) := runLog P.step (·.x) n (P.init x0 (junk x0.length)) []
  some s!"ok log={showLog log} x={showVec s.x}"

/-- `osmlem m= A0= At0= data0= sens0= … eps= x0= n=` -/
def doOsmlem (l : Line) : Option String := do
  let m ← l.nat? "m"
  let As ← Line.family l "A" m parseRatMat
  let Ats ← Line.family l "At" m parseRatMat
  let data ← Line.family l "data" m parseRatList
  let sens ← Line.family l "sens" m parseRatList
  let eps ← l.rat? "eps"
  let x0 ← l.rats? "x0"
  let n ← l.nat? "n"
  let P : OsmlemP RV RV :=
    { nOps := m, op := fun i => Mat.mulVec (fam As [] i), opAdj := fun i => Mat.mulVec (fam Ats [] i),
      data := fam data [], sens := fam sens [],
      clampW := Vec.map (fun v => if v < eps then eps else v),
      divW := Vec.div, divV := Vec.div, mulV := Vec.mul }
  -- a division by zero is an error of the real code (inf/nan), not a value of the model
  let s := iter P.step n ⟨x0, junk x0.length, fun _ => junk 1, []⟩
  some s!"ok log={showLog s.log} x={showVec s.x}"

/-- `steepest gg= tol= step= proj= x0= n=` (constant step length) -/
def doSteepest (l : Line) : Option String := do
  let gg ← Line.pspec? l "gg"
  let tol ← l.rat? "tol"
  let step ← l.rat? "step"
  let proj ← optSpec? l "proj"
  let x0 ← l.rats? "x0"
  let n ← l.nat? "n"
  let P : SteepestP Rat RV := ⟨gg.eval, Vec.nsq, tol, fun _ _ _ => some step, proj.map (·.eval)⟩
  let s := iter P.step n ⟨x0, junk x0.length, false, false, []⟩
  some s!"ok log={showLog s.log} x={showVec s.x} stopped={s.stopped}"

/-- `pdhg A= At= pf= pgc= tau= sigma= theta= x0= [xr= y=] n=` -/
def doPdhg (l : Line) : Option String := do
  let A ← Line.matR? l "A"
  let At ← Line.matR? l "At"
  let pf ← Line.pspec? l "pf"
  let pgc ← Line.pspec? l "pgc"
  let tau ← l.rat? "tau"
  let sigma ← l.rat? "sigma"
  let theta ← l.rat? "theta"
  let x0 ← l.rats? "x0"
  let n ← l.nat? "n"
  let dv := x0.length
  let dw := A.rows
  shape? A dw dv; shape? At dv dw
  let xr ← match l.get? "xr" with
    | none => some none
    | some _ => (l.rats? "xr").map some
  let y ← match l.get? "y" with
    | none => some none
    | some _ => (l.rats? "y").map some
  let sq := l.get? "sq" = some "1"
  let P : PdhgP Rat RV RV := ⟨nlOp sq A, nlAdj sq At, pf.eval, pgc.eval, tau, sigma, theta⟩
  let (s, log) := runLog P.step (·.x) n (P.init x0 xr y (Vec.zero dw) (junk dv) (junk dw)) []
  some s!"ok log={showLog log} x={showVec s.x} xr={showVec s.xRelax} y={showVec s.y}"

/-! ### Round 4: callable `lam`, accelerated PDHG -/

/-- `proxgradlam pf= gg= gamma= lams=<lam(0)>,<lam(1)>,… x0= n=`: `proximal_gradient` with a callable
`lam` given as the table of its values at `k = 0 … n-1` (a resumed call sends the shifted table). -/
def doProxGradLam (l : Line) : Option String := do
  let pf ← Line.pspec? l "pf"
  let gg ← Line.pspec? l "gg"
  let gamma ← l.rat? "gamma"
  let lams ← l.rats? "lams"
  let x0 ← l.rats? "x0"
  let n ← l.nat? "n"
  if lams.length < n then none
  let P : ProxGradP Rat RV := ⟨pf.eval, gg.eval, gamma, fun k => lams.getD k 0⟩
  let (s, log) := runLog P.step (·.x) n (P.init x0 (junk x0.length)) []
  some s!"ok log={showLog log} x={showVec s.x} k={s.k}"

/-- Functionals of the modelled zoo as proximal FACTORIES (step ↦ entry-wise map):
`zero`, `l1:a` (`a‖·‖₁`), `l2sq:c` (`c‖·‖₂²`), `box:lo:hi`, `nonneg`, `t:g:<f>` (`f(· - g)`). -/
inductive FSpec
  | zero
  | l1 (a : Rat)
  | l2sq (c : Rat)
  | box (lo hi : Rat)
  | nonneg
  | transl (g : List Rat) (f : FSpec)

/-- `f.proximal(s)` -/
def FSpec.prox : FSpec → Rat → PSpec Rat
  | .zero, _ => .id
  | .l1 a, s => .soft (a * s)
  | .l2sq c, s => .scale (1 / (1 + 2 * c * s))
  | .box lo hi, _ => .clamp lo hi
  | .nonneg, _ => .lower 0
  | .transl g f, s => .shift g (f.prox s)

/-- `f.convex_conj.proximal(s)` -/
def FSpec.cprox : FSpec → Rat → PSpec Rat
  | .zero, _ => .scale 0
  | .l1 a, _ => .clamp (-a) a
  | .l2sq c, s => .scale (1 / (1 + s / (2 * c)))
  | .box lo hi, s => .moreau s (.clamp lo hi)
  | .nonneg, s => .moreau s (.lower 0)
  | .transl g f, s => .comp (f.cprox s) (.affine 1 (g.map (fun v => -(s * v))))

def parseFSpecToks : Nat → List String → Option FSpec
  | 0, _ => none
  | _ + 1, ["zero"] => some .zero
  | _ + 1, ["nonneg"] => some .nonneg
  | _ + 1, ["l1", a] => do some (.l1 (← parseRat a))
  | _ + 1, ["l2sq", c] => do let c ← parseRat c; if c = 0 then none else some (.l2sq c)
  | _ + 1, ["box", a, b] => do some (.box (← parseRat a) (← parseRat b))
  | f + 1, "t" :: g :: r => do some (.transl (← parseRatList g) (← parseFSpecToks f r))
  | _ + 1, _ => none

def fspec? (l : Line) (k : String) : Option FSpec := do parseFSpecToks 8 ((← l.get? k).splitOn ":")

/-- `np.sqrt` on rationals: exact on squares of rationals, else rounded down to 64 fractional bits
(relative error < 2^-60; such cases are compared with the tolerance of the general stream). -/
def ratSqrt (q : Rat) : Rat :=
  if q ≤ 0 then 0 else
  let n := q.num.toNat
  let d := q.den
  let sn := Nat.sqrt n
  let sd := Nat.sqrt d
  if sn * sn = n && sd * sd = d then mkRat sn sd
  else mkRat (Nat.sqrt (n * 2 ^ 128 / d)) (2 ^ 64)

def optRat? (l : Line) (k : String) : Option (Option Rat) :=
  match l.get? k with
  | some "none" => some none
  | some _ => (l.rat? k).map some
  | none => none

/-- `pdhgacc A= At= ff=<fspec> gf=<fspec> tau= sigma= theta= gp=<rat>|none gd=<rat>|none x0= [xr= y=] [sq=1] n=` -/
def doPdhgAcc (l : Line) : Option String := do
  let A ← Line.matR? l "A"
  let At ← Line.matR? l "At"
  let ff ← fspec? l "ff"
  let gf ← fspec? l "gf"
  let tau ← l.rat? "tau"
  let sigma ← l.rat? "sigma"
  let theta ← l.rat? "theta"
  let gp ← optRat? l "gp"
  let gd ← optRat? l "gd"
  let x0 ← l.rats? "x0"
  let n ← l.nat? "n"
  let dv := x0.length
  let dw := A.rows
  shape? A dw dv; shape? At dv dw
  -- both acceleration parameters: the code raises before the loop; non-positive steps: no proximal
  if (gp.isSome && gd.isSome) || tau ≤ 0 || sigma ≤ 0 then none
  let xr ← match l.get? "xr" with
    | none => some none
    | some _ => (l.rats? "xr").map some
  let y ← match l.get? "y" with
    | none => some none
    | some _ => (l.rats? "y").map some
  let sq := l.get? "sq" = some "1"     -- the non-linear operator `x ↦ A (x ⊙ x)`, see `nlOp`
  let P : PdhgAccP Rat RV RV :=
    ⟨nlOp sq A, nlAdj sq At, fun s => (ff.prox s).eval, fun s => (gf.cprox s).eval, gp, gd, ratSqrt⟩
  let (s, log) := runLog P.step (·.x) n (P.init x0 xr y (Vec.zero dw) tau sigma theta (junk dv) (junk dw)) []
  some s!"ok log={showLog log} x={showVec s.x} xr={showVec s.xRelax} y={showVec s.y} tau={showRat s.tau} sigma={showRat s.sigma}"

/-- `cgsplit A= rhs= x0= n= m=`: `conjugate_gradient(op, x, rhs, niter=n)` followed by
`conjugate_gradient(op, x, rhs, niter=m)` on the returned `x`; the log is that of both calls. -/
def doCgSplit (l : Line) : Option String := do
  let A ← Line.matR? l "A"
  let rhs ← l.rats? "rhs"
  let x0 ← l.rats? "x0"
  let n ← l.nat? "n"
  let m ← l.nat? "m"
  let d := x0.length
  shape? A d d; len? rhs d
  let P : CgP Rat RV := ⟨A.mulVec, rhs, Vec.dot, Vec.nsq⟩
  let s := P.runSplit x0 (junk d) (junk d) n m
  -- `stopped`: one of the two calls executed an early `return`
  let st := (iter P.step n (P.init x0 (junk d))).stopped || s.stopped
  some s!"ok log={showLog s.log} x={showVec s.x} stopped={st}"

/-- `cgnsplit A= At= rhs= x0= n= m=`: the same for `conjugate_gradient_normal`. -/
def doCgnSplit (l : Line) : Option String := do
  let A ← Line.matR? l "A"
  let At ← Line.matR? l "At"
  let rhs ← l.rats? "rhs"
  let x0 ← l.rats? "x0"
  let n ← l.nat? "n"
  let m ← l.nat? "m"
  let dv := x0.length
  let dw := rhs.length
  shape? A dw dv; shape? At dv dw
  let P : CgnP Rat RV RV := ⟨A.mulVec, fun _ => At.mulVec, rhs, Vec.nsq, Vec.nsq⟩
  let s := P.runSplit x0 (junk dw) (junk dw) n m
  let st := (iter P.step n (P.init x0 (junk dw))).stopped || s.stopped
  some s!"ok log={showLog s.log} x={showVec s.x} stopped={st}"

/-! ### Round 5 -/

/-- `apgsplit pf= gg= gamma= x0= n= m=`: `accelerated_proximal_gradient` with `n` iterations, then a
second call on the returned `x` with `m` iterations (`sqrt`: `ratSqrt`). -/
def doApgSplit (l : Line) : Option String := do
  let pf ← Line.pspec? l "pf"
  let gg ← Line.pspec? l "gg"
  let gamma ← l.rat? "gamma"
  let x0 ← l.rats? "x0"
  let n ← l.nat? "n"
  let m ← l.nat? "m"
  let P : ProxGradP Rat RV := ⟨pf.eval, gg.eval, gamma, fun _ => 1⟩
  let (s, log) := P.accRunSplit ratSqrt x0 (junk x0.length) (junk x0.length) n m
  some s!"ok log={showLog log} x={showVec s.x}"

/-- `drsplit m= A0= At0= p0= [pl0=] … pf= tau= sigma= lam= x0= n= k=`: `douglas_rachford_pd` with `n`
iterations, then a second call on the returned `x` with `k` iterations (`k=0`: a single call). -/
def doDrSplit (l : Line) : Option String := do
  let m ← l.nat? "m"
  let As ← Line.family l "A" m parseRatMat
  let Ats ← Line.family l "At" m parseRatMat
  let ps ← Line.family l "p" m parsePSpec
  let pf ← Line.pspec? l "pf"
  let tau ← l.rat? "tau"
  let sigma ← l.rats? "sigma"
  let lam ← l.rat? "lam"
  let x0 ← l.rats? "x0"
  let n ← l.nat? "n"
  let k ← l.nat? "k"
  if sigma.length ≠ m then none
  let P : DrP Rat RV RV :=
    { m := m, L := fun i => Mat.mulVec (fam As [] i), Ladj := fun i => Mat.mulVec (fam Ats [] i),
      proxF := pf.eval, proxGc := fun i => (fam ps .id i).eval, tau := tau, sigma := fam sigma 0,
      lam := lam,
      proxLc := match Line.family l "pl" m parsePSpec with       -- `pl0= …`: the `l` terms are given
        | some pls => if m = 0 || (l.get? "pl0").isNone then none else some (fun i => (fam pls .id i).eval)
        | none => none }
  let v0 : Nat → RV := fun i => Vec.zero (Mat.rows (fam As [] i))
  let s := P.runSplit (Vec.zero x0.length) v0 x0 n k
  some s!"ok log={showLog s.log} x={showVec s.x}"

def handle (l : Line) : Option String :=
  match l.op with
  | "admm" => doAdmm l
  | "adupdates" => doAdupdates l
  | "dpdc" => doDpdc l
  | "landweber" => doLandweber l
  | "kaczmarz" => doKaczmarz l
  | "proxgrad" => doProxGrad l
  | "osmlem" => doOsmlem l
  | "steepest" => doSteepest l
  | "pdhg" => doPdhg l
  | "proxgradlam" => doProxGradLam l
  | "pdhgacc" => doPdhgAcc l
  | "cgsplit" => doCgSplit l
  | "cgnsplit" => doCgnSplit l
  | "apgsplit" => doApgSplit l
  | "drsplit" => doDrSplit l
  | _ => none

def main : IO Unit := driverLoop handle
