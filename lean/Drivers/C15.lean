import OdlModel.Common
import OdlModel.Model.CRat
import OdlModel.Model.Interp
import OdlModel.Gen.InterpEdges
import OdlModel.Model.Sampling
open OdlModel OdlModel.Interp

/-- real weights acting on (complex) values -/
instance : SMul Rat CRat := ⟨fun w z => ⟨w * z.re, w * z.im⟩⟩

def parseScheme : String → Option Scheme
  | "n" => some .nearest
  | "l" => some .linear
  | _ => none

/-- C-order flat index of a multi-index; `none` if out of range or of the wrong length. -/
def flatIndex : List Nat → List Nat → Option Nat
  | [], [] => some 0
  | d :: ds, i :: is => do
      if i ≥ d then none
      let r ← flatIndex ds is
      some (i * ds.foldl (· * ·) 1 + r)
  | _, _ => none

def mkAxes (dims : List Nat) (coords : List (List Rat)) (schemes : List Scheme) :
    Option (List (Axis Rat)) :=
  if dims.length ≠ coords.length || dims.length ≠ schemes.length || dims.isEmpty then none
  else
    (List.zip dims (List.zip coords schemes)).mapM fun (n, cv, s) =>
      if cv.length ≠ n || n < 2 then none
      else
        let a := cv.toArray
        some { n := n, c := fun i => a.getD i 0, scheme := s }

/-- `interp kind=nearest|peraxis conv=point|array|mesh sch=l,n dims=3,4 c=…;… v=… x=…;…`
answers `ok r=…` (flat, C order).  `x` has one row per axis: the coordinates of the points
(`point`: one entry per row; `array`: `N` per row; `mesh`: the mesh vector of that axis).
An index outside the value array (impossible for a well-formed model) answers `err:index`. -/
def doInterp (l : Line) : Option String := do
  let kind ← l.get? "kind"
  let conv ← l.get? "conv"
  let dims ← l.nats? "dims"
  let coords ← l.mat? "c"
  let schemes ← (← l.get? "sch") |> parseList parseScheme
  let axes ← mkAxes dims coords schemes
  let x ← l.mat? "x"
  if x.length ≠ dims.length then none
  let size := dims.foldl (· * ·) 1
  match kind with
  | "nearest" =>
    let toks := ((← l.get? "v").splitOn ",").toArray
    if toks.size ≠ size then none
    let v : List Nat → String := fun idx =>
      match flatIndex dims idx with
      | some k => toks.getD k "err:index"
      | none => "err:index"
    let r ← match conv with
      | "point" => if x.all (·.length = 1) then some [nearestInterp axes v (x.map (·.headD 0))] else none
      | "array" =>
          if x.all (·.length = (x.headD []).length) then some (nearestArray axes v x) else none
      | "mesh" => some (nearestMesh axes v x)
      | _ => none
    if r.any (· = "err:index") then some "err:index"
    else some s!"ok r={showList id r}"
  | "peraxis" =>
    -- `per_axis_interpolator` / `linear_interpolator`: the model's own dispatch decides
    -- between the index rule and the weighted corner loop
    let vt := (l.get? "vt").getD "num"
    if vt == "tok" then
      let toks := ((← l.get? "v").splitOn ",").toArray
      if toks.size ≠ size then none
      -- weighted sums of non-numeric values raise in the code (UFuncTypeError)
      if !allNearest axes then return "err:type"
      let v : List Nat → String := fun idx =>
        match flatIndex dims idx with
        | some k => toks.getD k "err:index"
        | none => "err:index"
      let r ← match conv with
        | "point" => if x.all (·.length = 1) then some [nearestInterp axes v (x.map (·.headD 0))] else none
        | "array" =>
            if x.all (·.length = (x.headD []).length) then some (nearestArray axes v x) else none
        | "mesh" => some (nearestMesh axes v x)
        | _ => none
      if r.any (· = "err:index") then some "err:index"
      else some s!"ok r={showList id r}"
    else
    let vals := (← l.crats? "v").toArray
    if vals.size ≠ size then none
    -- an out-of-range index is made visible through a flag value nobody sends
    let bad : CRat := ⟨123456789, 987654321⟩
    let v : List Nat → CRat := fun idx =>
      match flatIndex dims idx with
      | some k => vals.getD k bad
      | none => bad
    let r ← match conv with
      | "point" =>
          if x.all (·.length = 1) then some [perAxisInterpolator axes v (x.map (·.headD 0))] else none
      | "array" =>
          if x.all (·.length = (x.headD []).length) then
            some (if allNearest axes then nearestArray axes v x else perAxisArray axes v x)
          else none
      | "mesh" => some (if allNearest axes then nearestMesh axes v x else perAxisMesh axes v x)
      | _ => none
    some s!"ok r={showCList r}"
  | _ => none

def parseVKind : String → Option VKind
  | "float64" => some .float64
  | "float32" => some .float32
  | "complex128" => some .complex128
  | "complex64" => some .complex64
  | "int" => some .int
  | "strNarrow" => some .strNarrow
  | "strWide" => some .strWide
  | "object" => some .object
  | _ => none

/-- `cast vk=<class>` answers
`ok safe=0|1 samekind=0|1 numeric=0|1 lossless=0|1 cast=0|1 outcome=ok|err:type`
(`cast`/`outcome` with the guard and the casting rule EXTRACTED from the source). -/
def doCast (l : Line) : Option String := do
  let vk ← (← l.get? "vk") |> parseVKind
  let g := OdlModel.Gen.Interp.castGuardNumeric
  let r := OdlModel.Gen.Interp.castingRule
  let o := match findIndicesOutcome g r vk with
    | .ok => "ok"
    | .typeError => "err:type"
  let b (x : Bool) := if x then 1 else 0
  some s!"ok safe={b (castSafe vk)} samekind={b (castSameKind vk)} numeric={b (isNumeric vk)} lossless={b (castLossless vk)} cast={b (pointsTakeValueDtype g r vk)} outcome={o}"

/-- `dispatch hasout=0|1 optional=0|1 out=0|1` answers `ok kind=… user_out=0|1`. -/
def doDispatch (l : Line) : Option String := do
  let h ← l.bool? "hasout"
  let o ← l.bool? "optional"
  let g ← l.bool? "out"
  let k := Sampling.callKind h o
  let ks := match k with
    | .oopOnly => "oopOnly"
    | .dual => "dual"
    | .ipOnly => "ipOnly"
  some s!"ok kind={ks} user_out={if Sampling.userGetsOut k g then 1 else 0}"

/-- `classify d=D shape=a,b` answers `ok scalar=0|1 n=N` or `err:value`. -/
def doClassify (l : Line) : Option String := do
  let d ← l.nat? "d"
  let shape ← l.nats? "shape"
  if d = 0 then none
  match classifyArrayInput d shape with
  | none => some "err:value"
  | some (sc, n) => some s!"ok scalar={if sc then 1 else 0} n={n}"

/-- `sample kind=oopOnly|dual|ipOnly out=0|1 d=D inp=mesh|array|point s=… rshape=… r=…`
(`r`: the array the user's code computed, flat in C order; `rshape=-` for a scalar) answers
`ok shape=… a=…` (the array `dual_use_func` returns / leaves in `out`) or `err:value`. -/
def doSample (l : Line) : Option String := do
  let k ← match l.get? "kind" with
    | some "oopOnly" => some Sampling.CallKind.oopOnly
    | some "dual" => some .dual
    | some "ipOnly" => some .ipOnly
    | _ => none
  let g ← l.bool? "out"
  let d ← l.nat? "d"
  let inp ← match l.get? "inp" with
    | some "mesh" => some Sampling.InputKind.mesh
    | some "array" => some .array
    | some "point" => some .point
    | _ => none
  let s ← l.nats? "s"
  let rshape ← l.nats? "rshape"
  let data := (← l.crats? "r").toArray
  if data.size ≠ Sampling.size rshape then none
  let bad : CRat := ⟨123456789, 987654321⟩
  let r : Sampling.Arr CRat := ⟨rshape, fun idx => data.getD (Sampling.ravel rshape idx) bad⟩
  match Sampling.sample k g d inp s r with
  | none => some "err:value"
  | some a =>
    let idxs := cartesian (a.shape.map List.range)
    some s!"ok shape={showNatList a.shape} a={showCList (idxs.map a.get)}"

/-- `probe c=… x=…` (one axis): the model's cell index, normalised distance and nearest node for
every point: `ok i=… nd=… j=…`.  Used by the behavioural fallback of the translator. -/
def doProbe (l : Line) : Option String := do
  let cv ← l.rats? "c"
  let xs ← l.rats? "x"
  if cv.length < 2 then none
  let a := cv.toArray
  let c : Nat → Rat := fun i => a.getD i 0
  let n := cv.length
  let is := xs.map (findIndex c n)
  let nds := xs.map (fun p => normDist c (findIndex c n p) p)
  let js := xs.map (nearestIndex c n)
  some s!"ok i={showNatList is} nd={showRatList nds} j={showNatList js}"

/-- Axis spec `u:lo:hi:n` (an axis of `uniform_discr(lo, hi, n)`: the model computes the nodes),
`b:lo:hi:n:bl:br` (the same with `nodes_on_bdry=(bl, br)`)
or `c:x0,x1,…` (explicit coordinate vector of a non-uniform partition). -/
def parseAxisSpec (s : String) (sch : Scheme) : Option (Axis Rat) :=
  match s.splitOn ":" with
  | ["u", lo, hi, n] => do
      let lo ← parseRat lo
      let hi ← parseRat hi
      let n ← n.toNat?
      if n = 0 then none else some (uniformAxis lo hi n sch)
  | ["b", lo, hi, n, bl, br] => do
      let lo ← parseRat lo
      let hi ← parseRat hi
      let n ← n.toNat?
      let bl ← match bl with | "1" => some true | "0" => some false | _ => none
      let br ← match br with | "1" => some true | "0" => some false | _ => none
      if n = 0 then none else some (uniformAxisBdry bl br lo hi n sch)
  | ["c", cs] => do
      let cv ← parseRatList cs
      if cv.isEmpty then none
      let a := cv.toArray
      some { n := cv.length, c := fun i => a.getD i 0, scheme := sch }
  | _ => none

def parseAxisSpecs (s : String) (schemes : List Scheme) : Option (List (Axis Rat)) :=
  let toks := s.splitOn "|"
  if toks.length ≠ schemes.length then none
  else (List.zip toks schemes).mapM fun (t, sc) => parseAxisSpec t sc

/-- `grid lo=… hi=… n=… [bl=0|1 br=0|1]` answers `ok c=…`: the nodes of `uniform_discr(lo, hi, n)`
(with `nodes_on_bdry=(bl, br)` when the flags are given). -/
def doGrid (l : Line) : Option String := do
  let lo ← l.rat? "lo"
  let hi ← l.rat? "hi"
  let n ← l.nat? "n"
  if n = 0 then none
  match l.get? "bl", l.get? "br" with
  | none, none => some s!"ok c={showRatList (uniformAxis lo hi n .linear).nodes}"
  | _, _ =>
    let bl ← l.bool? "bl"
    let br ← l.bool? "br"
    some s!"ok c={showRatList (uniformAxisBdry bl br lo hi n .linear).nodes}"

/-- The value array of an operator case: `v` flat in C order over the DOMAIN axes. -/
def opValues (l : Line) (axes : List (Axis Rat)) : Option (List Nat → CRat) := do
  let dims := axes.map (·.n)
  let vals := (← l.crats? "v").toArray
  if vals.size ≠ dims.foldl (· * ·) 1 then none
  let bad : CRat := ⟨123456789, 987654321⟩
  some fun idx =>
    match flatIndex dims idx with
    | some k => vals.getD k bad
    | none => bad

/-- `resample sch=l,n dom=<spec>|<spec> ran=<spec>|<spec> v=…` answers `ok r=…`:
`Resampling(domain, range, interp)(x)` flat in C order, the grids computed by the model. -/
def doResample (l : Line) : Option String := do
  let schemes ← (← l.get? "sch") |> parseList parseScheme
  let dom ← parseAxisSpecs (← l.get? "dom") schemes
  let ran ← parseAxisSpecs (← l.get? "ran") schemes
  if dom.isEmpty || dom.any (·.n < 2) then none
  let v ← opValues l dom
  some s!"ok r={showCList (resampling dom ran v)}"

/-- `deform sch=l,n dom=<spec>|<spec> v=… disp=row;row` answers `ok r=…`:
`linear_deform(template, displacement, interp)` flat in C order (`disp`: one row per component,
each flat in C order), grid and displaced points computed by the model. -/
def doDeform (l : Line) : Option String := do
  let schemes ← (← l.get? "sch") |> parseList parseScheme
  let dom ← parseAxisSpecs (← l.get? "dom") schemes
  if dom.isEmpty || dom.any (·.n < 2) then none
  let v ← opValues l dom
  let disp ← l.mat? "disp"
  let size := (dom.map (·.n)).foldl (· * ·) 1
  if disp.length ≠ dom.length || disp.any (·.length ≠ size) then none
  some s!"ok r={showCList (linearDeform dom v disp)}"

def handle (l : Line) : Option String :=
  match l.op with
  | "interp" => doInterp l
  | "cast" => doCast l
  | "dispatch" => doDispatch l
  | "classify" => doClassify l
  | "sample" => doSample l
  | "probe" => doProbe l
  | "grid" => doGrid l
  | "resample" => doResample l
  | "deform" => doDeform l
  | _ => none

def main : IO Unit := driverLoop handle
