import OdlModel.Common
import OdlModel.Model.Partition
open OdlModel OdlModel.Partition

/-! Line protocol for C14.  A partition on the wire is `c=<rows ;> lo=<list> hi=<list>`
(one row of coordinates per axis).  Answers: `ok …` or `err` (the code raises). -/

def tolNp : Tol := Tol.numpy
def rtolBdry : Rat := 1 / 100000
def epsF : Rat := 1 / 4503599627370496
def uniTolOf (p : Part1) : Tol := p.uniTol epsF (1 / 100000)
def epsNp : Rat := 1 / 100000

def mkPart (c : List (List Rat)) (lo hi : List Rat) : Option Part :=
  if c.length ≠ lo.length ∨ c.length ≠ hi.length then none
  else some ((List.zip c (List.zip lo hi)).map fun (r, (a, b)) => Part1.ofList r a b)

def OdlModel.Line.part? (l : Line) (sfx : String := "") : Option Part := do
  let c ← l.mat? ("c" ++ sfx)
  let lo ← l.rats? ("lo" ++ sfx)
  let hi ← l.rats? ("hi" ++ sfx)
  mkPart c lo hi

/-- Input partitions must be valid states (built by the real constructors). -/
def OdlModel.Line.vpart? (l : Line) (sfx : String := "") : Option Part := do
  let P ← l.part? sfx
  if P.all Part1.wf then some P else none

def showPart (P : Part) : String :=
  s!"ok n={showNatList (P.map (·.n))} c={showRatMat (P.map Part1.coords)} " ++
  s!"lo={showRatList (P.map (·.lo))} hi={showRatList (P.map (·.hi))}"

def showRes : Option Part → String
  | some P => showPart P
  | none => "err"

def bit (b : Bool) : String := if b then "1" else "0"

def parseOptRat (s : String) : Option (Option Rat) :=
  if s = "N" then some none else (parseRat s).map some
def parseOptInt (s : String) : Option (Option Int) :=
  if s = "N" then some none else s.toInt?.map some
def OdlModel.Line.orats? (l : Line) (k : String) : Option (List (Option Rat)) :=
  l.get? k >>= parseList parseOptRat
def OdlModel.Line.oints? (l : Line) (k : String) : Option (List (Option Int)) :=
  l.get? k >>= parseList parseOptInt

def parseBit (c : Char) : Option Bool :=
  if c = '1' then some true else if c = '0' then some false else none

def parseEntry (s : String) : Option FlagEntry :=
  match s.toList with
  | [a] => do let x ← parseBit a; some (.b x)
  | [a, b] => do let x ← parseBit a; let y ← parseBit b; some (.pair x y)
  | _ => none

/-- `g1` = `True`; `f10` = the sequence `(True, False)`; `a:11,0,10` = the sequence
`[(True, True), False, (True, False)]` (one bit = a bare bool entry). -/
def parseFlags (s : String) : Option Flags :=
  match s.toList with
  | ['g', b] => (parseBit b).map Flags.global
  | ['f', a, b] => do let x ← parseBit a; let y ← parseBit b; some (Flags.seq [.b x, .b y])
  | 'a' :: ':' :: rest => (parseList parseEntry (String.ofList rest)).map Flags.seq
  | _ => none

def parseIdx (s : String) : Option Idx :=
  if s = "e" then some .ellipsis
  else match s.splitOn "_" with
    | ["i", k] => k.toInt?.map Idx.int
    | ["l", body] => (parseList String.toInt? ((body.replace "." ","))).map Idx.list
    | ["s", a, b, c] => do
        let a ← parseOptInt a; let b ← parseOptInt b; let c ← parseOptInt c
        some (.slice a b c)
    | _ => none

def doProps (l : Line) : Option String := do
  let P ← l.vpart?
  let bd := P.map fun p => (List.range (p.n + 1)).map p.bdry
  let sz := P.map fun p => (List.range p.n).map p.cellSize
  let fr := P.map fun p => [p.bdryFrac.1, p.bdryFrac.2]
  let nob := P.map fun p => bit (p.nodesOnBdry rtolBdry).1 ++ bit (p.nodesOnBdry rtolBdry).2
  let uni := P.map fun p => bit (p.isUniform (uniTolOf p))
  let sides := P.map fun p => match p.cellSide (uniTolOf p) with
    | some s => showRat s
    | none => "nan"
  some (s!"ok bdry={showRatMat bd} sizes={showRatMat sz} frac={showRatMat fr} " ++
        s!"nob={showList id nob} uni={showList id uni} sides={showList id sides}")

def doIndex (l : Line) : Option String := do
  let P ← l.vpart?
  let v ← l.rats? "v"
  if v.length ≠ P.length then some "err"
  else
    match ndIndex P v,
          (List.zip P v).mapM (fun (p, x) => p.indexFloat x) with
    | some i, some f => some s!"ok i={showIntList i} f={showRatList f}"
    | _, _ => some "err"

def doGetItem (l : Line) : Option String := do
  let P ← l.vpart?
  let e ← l.get? "idx"
  if e.startsWith "L:" then
    let li ← parseIntList (e.drop 2).toString
    some (showRes (getItemList P li))
  else if e.startsWith "T:" then
    let body := (e.drop 2).toString
    let items ← if body = "" then some [] else (body.splitOn "|").mapM parseIdx
    some (showRes (getItem P items))
  else none

def doInsert (l : Line) (isAppend : Bool) : Option String := do
  let P ← l.vpart?
  let k ← l.nat? "k"
  let parts ← (List.range k).mapM fun j => l.vpart? (toString (j + 1))
  if isAppend then some (showRes (append2 P parts))
  else
    let at_ ← l.int? "at"
    some (showRes (insert2 P at_ parts))

def doSqueeze (l : Line) : Option String := do
  let P ← l.vpart?
  let a ← l.get? "ax"
  if a = "N" then some (showRes (squeeze2 P none))
  else
    let ax ← parseIntList a
    some (showRes (squeeze2 P (some ax)))

def doByaxis (l : Line) : Option String := do
  let P ← l.vpart?
  let e ← l.get? "sel"
  if e.startsWith "L:" then
    let li ← parseIntList (e.drop 2).toString
    some (showRes (byaxisList P li))
  else
    match ← parseIdx e with
    | .int k => some (showRes (byaxisInt P k))
    | .slice a b c => some (showRes (byaxisSlice P a b c))
    | .ellipsis => none
    | .list _ => none

def doUniform (l : Line) : Option String := do
  let xmin ← l.orats? "min"
  let xmax ← l.orats? "max"
  let shape ← l.oints? "shape"
  let sides ← l.orats? "sides"
  let fl ← l.get? "nob" >>= parseFlags
  some (showRes (uniformPartition tolNp epsNp xmin xmax shape sides fl))

def doFromIntv (l : Line) : Option String := do
  let lo ← l.rats? "lo"
  let hi ← l.rats? "hi"
  let shape ← l.nats? "shape"
  let fl ← l.get? "nob" >>= parseFlags
  match fl.gridFlags lo.length with
  | some gf => some (showRes (fromIntv lo hi shape gf))
  | none => some "err"

def zipAxes (c : List (List Rat)) (xmin xmax : List (Option Rat)) :
    Option (List (List Rat × Option Rat × Option Rat)) :=
  if xmin.length ≠ c.length ∨ xmax.length ≠ c.length then none
  else some (List.zip c (List.zip xmin xmax))

def doFromGrid (l : Line) : Option String := do
  let c ← l.mat? "c"
  let xmin ← l.orats? "min"
  let xmax ← l.orats? "max"
  let ax ← zipAxes c xmin xmax
  some (showRes (ax.mapM fun (r, (a, b)) =>
    let p := Part1.ofList r 0 0
    fromGridAxis p.n p.c a b))

def doNonuniform (l : Line) : Option String := do
  let c ← l.mat? "c"
  let xmin ← l.orats? "min"
  let xmax ← l.orats? "max"
  let fl ← l.get? "nob" >>= parseFlags
  let ax ← zipAxes c xmin xmax
  match fl.loopFlags c.length with
  | none => some "err"
  | some lf =>
    some (showRes ((List.zip ax lf).mapM fun ((r, (a, b)), (bl, br)) =>
      let p := Part1.ofList r 0 0
      nonuniformAxis p.n p.c a b bl br))

/-- n-d derived quantities: `size`, `is_uniform`, `has_isotropic_cells`, `cell_volume`, `points()`
(C order) and `index(pt)` of every grid point. -/
def doNd (l : Line) : Option String := do
  let P ← l.vpart?
  let vol := match ndCellVolume uniTolOf P with
    | some v => showRat v
    | none => "nan"
  let pts := ndPoints P
  let idx := pts.map fun v => match ndIndex P v with
    | some i => showIntList i
    | none => "err"
  some (s!"ok size={ndSize P} uni={bit (ndIsUniform uniTolOf P)} iso={bit (ndIsotropic uniTolOf tolNp P)} " ++
        s!"vol={vol} pts={showRatMat pts} idx={";".intercalate idx}")

/-- The documented equivalences: the uniform partition, `nonuniform_partition` of its coordinate
vectors with the same flags, `uniform_partition_fromgrid` of its grid with the on-boundary limits
given explicitly. -/
def doEquiv (l : Line) : Option String := do
  let lo ← l.rats? "lo"
  let hi ← l.rats? "hi"
  let shape ← l.nats? "shape"
  let fl ← l.get? "nob" >>= parseFlags
  match fl.gridFlags lo.length with
  | none => some "err"
  | some gf =>
    match fromIntv lo hi shape gf with
    | none => some "err"
    | some P =>
      let Q := (List.zip P gf).mapM fun (p, (bl, br)) => reNonuniform p bl br
      let R := (List.zip P gf).mapM fun (p, (bl, br)) => reFromGrid p bl br
      some (showPart P ++ " | " ++ showRes Q ++ " | " ++ showRes R)

/-- The set below the partition: `set.volume`, the n-d cell volumes, `set.corners()` and `index` of every
corner. -/
def doSets (l : Line) : Option String := do
  let P ← l.vpart?
  let cor := setCorners P
  let idx := cor.map fun v => match ndIndex P v with
    | some i => showIntList i
    | none => "err"
  some (s!"ok vol={showRat (setVolume P)} cellvols={showRatList (ndCellVolumes P)} " ++
        s!"corners={showRatMat cor} idx={";".intercalate idx}")

def handle (l : Line) : Option String :=
  match l.op with
  | "props" => doProps l
  | "index" => doIndex l
  | "getitem" => doGetItem l
  | "insert" => doInsert l false
  | "append" => doInsert l true
  | "squeeze" => doSqueeze l
  | "byaxis" => doByaxis l
  | "uniform" => doUniform l
  | "fromintv" => doFromIntv l
  | "fromgrid" => doFromGrid l
  | "nonuniform" => doNonuniform l
  | "nd" => doNd l
  | "equiv" => doEquiv l
  | "sets" => doSets l
  | _ => none

def main : IO Unit := driverLoop handle
