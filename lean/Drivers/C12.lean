import OdlModel.Common
import OdlModel.Model.Solvers
import OdlModel.Model.SolversInst
open OdlModel OdlModel.Solvers OdlModel.SolversInst

/-!
Driver for C12: the additional state machines of `Model/Solvers.lean` (conjugate gradients,
CG on the normal equations, steepest descent with the backtracking line search, power
method, Douglas–Rachford, forward–backward, FISTA) instantiated with rational matrices and
entry-wise maps.  The paths through `sqrt` (power method, FISTA momentum) run on doubles and
print the exact rational value of every double.
-/

abbrev RV := Vec Rat
abbrev FV := Vec Float

def junk (n : Nat) : RV := List.replicate n (-77 : Rat)
def fam (f : List α) (d : α) : Nat → α := fun i => f.getD i d
def shape? (A : Mat Rat) (r c : Nat) : Option Unit := if A.wf r c then some () else none

/-- `cg A= b= x0= n=` -/
def doCg (l : Line) : Option String := do
  let A ← Line.matR? l "A"
  let b ← l.rats? "b"
  let x0 ← l.rats? "x0"
  let n ← l.nat? "n"
  shape? A x0.length x0.length
  let P : CgP Rat RV := ⟨A.mulVec, b, Vec.dot, Vec.nsq⟩
  let s := iter P.step n (P.init x0 (junk x0.length))
  some s!"ok log={showLog s.log} x={showVec s.x} stopped={s.stopped}"

/-- `cgn A= At= b= x0= n=` -/
def doCgn (l : Line) : Option String := do
  let A ← Line.matR? l "A"
  let At ← Line.matR? l "At"
  let b ← l.rats? "b"
  let x0 ← l.rats? "x0"
  let n ← l.nat? "n"
  shape? A b.length x0.length; shape? At x0.length b.length
  -- `sq=1`: non-linear `x ↦ A (x ⊙ x)`; the code differentiates at `x` initially, at `p` in the loop
  let sq := l.get? "sq" = some "1"
  let op : RV → RV := if sq then fun x => A.mulVec (Vec.mul x x) else A.mulVec
  let dAdj : RV → RV → RV := if sq then fun x w => (2 : Rat) • Vec.mul x (At.mulVec w) else fun _ => At.mulVec
  let P : CgnP Rat RV RV := ⟨op, dAdj, b, Vec.nsq, Vec.nsq⟩
  let s := iter P.step n (P.init x0 (junk b.length))
  some s!"ok log={showLog s.log} x={showVec s.x} stopped={s.stopped}"

/-- `steepestbt M= b= c= gg= tau= discount= maxit= tol= x0= n=`:
`f(x) = c * ||M x - b||^2`, gradient `gg`, `BacktrackingLineSearch(f, tau, discount, max_num_iter)` -/
def doSteepestBt (l : Line) : Option String := do
  let M ← Line.matR? l "M"
  let b ← l.rats? "b"
  let c ← l.rat? "c"
  let gg ← Line.pspec? l "gg"
  let tau ← l.rat? "tau"
  let discount ← l.rat? "discount"
  let maxit ← l.nat? "maxit"
  let tol ← l.rat? "tol"
  let x0 ← l.rats? "x0"
  let n ← l.nat? "n"
  shape? M b.length x0.length
  let f : RV → Rat := fun x => c * Vec.nsq (M.mulVec x - Vec.ofList b)
  let P : SteepestP Rat RV := ⟨gg.eval, Vec.nsq, tol, backtracking f tau discount maxit, none⟩
  let s := iter P.step n ⟨x0, junk x0.length, false, false, []⟩
  let fvals := s.log.map f
  some s!"ok log={showLog s.log} x={showVec s.x} stopped={s.stopped} failed={s.failed} f={showRatList fvals}"

/-- `linesearch M= b= c= tau= discount= maxit= x= dir= dd=` → `ok step=<alpha>` | `ok raise` -/
def doLineSearch (l : Line) : Option String := do
  let M ← Line.matR? l "M"
  let b ← l.rats? "b"
  let c ← l.rat? "c"
  let tau ← l.rat? "tau"
  let discount ← l.rat? "discount"
  let maxit ← l.nat? "maxit"
  let x ← l.rats? "x"
  let dir ← l.rats? "dir"
  let dd ← l.rat? "dd"
  shape? M b.length x.length
  let f : RV → Rat := fun x => c * Vec.nsq (M.mulVec x - Vec.ofList b)
  match backtracking f tau discount maxit (Vec.ofList x) (Vec.ofList dir) dd with
  | some a => some s!"ok step={showRat a}"
  | none => some "ok raise"

def toF (v : List Rat) : FV := v.map ratToFloat
def matF (A : Mat Rat) : Mat Float := A.map (·.map ratToFloat)
def fnorm (v : FV) : Float := (Vec.nsq v).sqrt
def fIsClose (rtol atol a b : Float) : Bool := (a - b).abs ≤ atol + rtol * b.abs

def showF (x : Float) : String := match floatToRat? x with
  | some r => showRat r
  | none => "nonfinite"

/-- `power A= At= x0= ncalls= rtol= atol=` (doubles) -/
def doPower (l : Line) : Option String := do
  let A ← Line.matR? l "A"
  let At ← Line.matR? l "At"
  let x0 ← l.rats? "x0"
  let ncalls ← l.nat? "ncalls"
  let rtol ← l.rat? "rtol"
  let atol ← l.rat? "atol"
  let P : PowerP Float FV FV := ⟨(matF A).mulVec, (matF At).mulVec, fnorm, Float.sqrt,
    fun k => k == 0, fIsClose (ratToFloat rtol) (ratToFloat atol)⟩
  match P.run (toF x0) ncalls with
  | some e => some s!"ok est={showF e}"
  | none => some "ok raise"

/-- `powerself A= x0= ncalls= rtol= atol=` (doubles; `op.adjoint is op`) -/
def doPowerSelf (l : Line) : Option String := do
  let A ← Line.matR? l "A"
  let x0 ← l.rats? "x0"
  let ncalls ← l.nat? "ncalls"
  let rtol ← l.rat? "rtol"
  let atol ← l.rat? "atol"
  let P : PowerSelfP Float FV := ⟨(matF A).mulVec, fnorm,
    fun k => k == 0, fIsClose (ratToFloat rtol) (ratToFloat atol)⟩
  match P.run (toF x0) ncalls with
  | some e => some s!"ok est={showF e}"
  | none => some "ok raise"

/-- `dr m= A0= At0= p0= … pf= tau= sigma= lam= x0= n=` -/
def doDr (l : Line) : Option String := do
  let m ← l.nat? "m"
  let As ← Line.family l "A" m parseRatMat
  let Ats ← Line.family l "At" m parseRatMat
  let ps ← Line.family l "p" m parsePSpec
  let pf ← Line.pspec? l "pf"
  let tau ← l.rat? "tau"
  let sigma ← l.rats? "sigma"
  let lam ← l.rat? "lam"
  let x0 ← l.rats? "x0"
  let n ← l.nat? "n"
  if sigma.length ≠ m then none
  let P : DrP Rat RV RV :=
    { m := m, L := fun i => Mat.mulVec (fam As [] i), Ladj := fun i => Mat.mulVec (fam Ats [] i),
      proxF := pf.eval, proxGc := fun i => (fam ps .id i).eval, tau := tau, sigma := fam sigma 0,
      lam := lam,
      proxLc := match Line.family l "pl" m parsePSpec with       -- `pl0= …`: the `l` terms are given
        | some pls => if m = 0 || (l.get? "pl0").isNone then none else some (fun i => (fam pls .id i).eval)
        | none => none }
  let v0 : Nat → RV := fun i => Vec.zero (Mat.rows (fam As [] i))
  let s := P.run (Vec.zero x0.length) n ⟨x0, v0, Vec.zero x0.length, []⟩
  some s!"ok log={showLog s.log} x={showVec s.x}"

/-- `fbpd m= A0= At0= p0= … pf= gh= tau= sigma= x0= n=` -/
def doFbpd (l : Line) : Option String := do
  let m ← l.nat? "m"
  let As ← Line.family l "A" m parseRatMat
  let Ats ← Line.family l "At" m parseRatMat
  let ps ← Line.family l "p" m parsePSpec
  let pf ← Line.pspec? l "pf"
  let gh ← Line.pspec? l "gh"
  let tau ← l.rat? "tau"
  let sigma ← l.rats? "sigma"
  let x0 ← l.rats? "x0"
  let n ← l.nat? "n"
  if sigma.length ≠ m then none
  let P : FbpdP Rat RV RV :=
    { m := m, L := fun i => Mat.mulVec (fam As [] i), Ladj := fun i => Mat.mulVec (fam Ats [] i),
      proxF := pf.eval, gradH := gh.eval, proxGc := fun i => (fam ps .id i).eval, tau := tau,
      sigma := fam sigma 0,
      gradLc := match Line.family l "gl" m parsePSpec with       -- `gl0= …`: the `l` terms are given
        | some gls => if m = 0 || (l.get? "gl0").isNone then none else some (fun i => (fam gls .id i).eval)
        | none => none }
  let v0 : Nat → RV := fun i => Vec.zero (Mat.rows (fam As [] i))
  let (s, log) := runLog (P.step fbpdXOldAliased) (·.x) n ⟨x0, v0, Vec.zero x0.length⟩ []
  some s!"ok log={showLog log} x={showVec s.x} v={showLog ((List.range m).map s.v)}"

/-- `apg pf= gg= gamma= x0= n=` (doubles: the momentum uses `sqrt`) -/
def doApg (l : Line) : Option String := do
  let pf ← Line.pspec? l "pf"
  let gg ← Line.pspec? l "gg"
  let gamma ← l.rat? "gamma"
  let x0 ← l.rats? "x0"
  let n ← l.nat? "n"
  let pfF := pf.mapK ratToFloat
  let ggF := gg.mapK ratToFloat
  let P : ProxGradP Float FV := ⟨pfF.eval, ggF.eval, ratToFloat gamma, fun _ => 1⟩
  let (_, log) := runLog (P.accStep Float.sqrt) (·.x) n (P.accInit (toF x0) (toF x0)) []
  some s!"ok log={";".intercalate (log.map showFloatVec)}"

def optF (l : Line) (k : String) : Option (Option Float) :=
  match l.get? k with
  | none => some none
  | some _ => (l.rat? k).map (fun r => some (ratToFloat r))

instance : OfNat Float 9 := ⟨9.0⟩
instance : OfNat Float 10 := ⟨10.0⟩

/-- `pdhgstep Lnorm= [tau=] [sigma=]` (doubles) -/
def doPdhgStep (l : Line) : Option String := do
  let ln ← l.rat? "Lnorm"
  let tau ← optF l "tau"
  let sigma ← optF l "sigma"
  let (t, s) := pdhgStepsize Float.sqrt (ratToFloat ln) tau sigma
  some s!"ok tau={showF t} sigma={showF s}"

/-- `drstep norms= [tau=] [sigma=]` (doubles) -/
def doDrStep (l : Line) : Option String := do
  let norms ← l.rats? "norms"
  let tau ← optF l "tau"
  let sigma ← match l.get? "sigma" with
    | none => some none
    | some _ => (l.rats? "sigma").map (fun v => some (v.map ratToFloat))
  let (t, s) := drStepsize (norms.map ratToFloat) tau sigma
  some s!"ok tau={showF t} sigma={showFloatVec s}"

/-- `lwomega est=` (doubles): Landweber's default relaxation -/
def doLwOmega (l : Line) : Option String := do
  let e ← l.rat? "est"
  some s!"ok omega={showF (landweberDefaultOmega (ratToFloat e))}"

def handle (l : Line) : Option String :=
  match l.op with
  | "cg" => doCg l
  | "cgn" => doCgn l
  | "steepestbt" => doSteepestBt l
  | "linesearch" => doLineSearch l
  | "power" => doPower l
  | "powerself" => doPowerSelf l
  | "dr" => doDr l
  | "fbpd" => doFbpd l
  | "apg" => doApg l
  | "pdhgstep" => doPdhgStep l
  | "drstep" => doDrStep l
  | "lwomega" => doLwOmega l
  | _ => none

def main : IO Unit := driverLoop handle
