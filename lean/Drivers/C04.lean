import OdlModel.Common
import OdlModel.Model.CRat
import OdlModel.Model.OpAlgebra
import OdlModel.Model.OpDispatch
import OdlModel.Model.OpLeaves
import OdlModel.Gen.AlgebraDispatch
open OdlModel OdlModel.OpAlgebra

/-!
`expr leaves=<leaf|leaf|…> e=<rpn token|token|…> x=<entries>`
answers `ok tree=… dom=… ran=… lin=0|1 fn=0|1 ty=… linof=0|1 tt=0|1 val=… inp=… inpx=… den=…` or
(`inpx`: `runInBy` over the extracted in-place statement lists, junk in `out` and temporaries)
`raise ty=… tt=0|1` (`tt`: the dispatch through the extracted tables gives the same object).
`leafclass leaf=<kind~…> x= y= s= t=` answers `ok cls=all|real|none lin= fn= dom= ran= fx= fy= fsx= ftx= fxy=`.

leaf   : `<lin><fn>~` + one of `shift~n~p` `repart~n` `impart~n` `scalef~c` `powf~p` (field -> field) `mat~ndom~nran~rows` `scale~n~c` `ident~n` `pow~n~p` `inner~n~y` `l2sq~n` `constf~n~c`
         `zerof~n` `linf~n~y` (leaf id = position)
tokens : `L~id` `neg` `pow~n` `add` `sub` `mul` `pprod` `quot`
         `s.lmul~c~r` `s.rmul~c~r` `s.div~c~r` `s.add~c~r` `s.radd~c~r` `s.sub~c~r` `s.rsub~c~r`
         (r = 1 iff isinstance(c, numbers.Real))
         `v.lmul~list` `v.rmul~list` `v.add~list` `v.radd~list` `v.sub~list` `v.rsub~list`
Scalars/entries are Gaussian rationals `re` or `re:im`.
-/

abbrev V := Vec CRat

def ofList (l : List CRat) : V :=
  let a := l.toArray
  fun j => a.getD j 0

def toList (n : Nat) (v : V) : List CRat := (List.range n).map v

def spDim : Sp → Nat
  | .vec n => n
  | .fld => 1

def showSp : Sp → String
  | .vec n => s!"v{n}"
  | .fld => "F"

/-- wire leaf kind -> model leaf spec (`Model/OpLeaves.lean`); every executable leaf of the
pool is a `LeafSpecC`, nothing is defined in the driver -/
def parseSpec (parts : List String) : Option (LeafSpecC CRat) :=
  match parts with
  | ["mat", nd, nr, rows] => do
      let nd ← nd.toNat?
      let nr ← nr.toNat?
      let m ← (rows.splitOn ";").mapM parseCList
      if m.length ≠ nr || m.any (·.length ≠ nd) then none
      some (.base (.mat nd nr m))
  | ["scale", n, c] => do some (.base (.scale (← n.toNat?) (← CRat.parse c)))
  | ["ident", n] => do some (.base (.ident (← n.toNat?)))
  | ["pow", n, p] => do some (.base (.pow (← n.toNat?) (← p.toNat?)))
  | ["shift", n, p] => do some (.base (.shift (← n.toNat?) (← p.toNat?)))   -- harness operator
  | ["constf", n, c] => do some (.base (.constf (← n.toNat?) (← CRat.parse c)))
  | ["zerof", n] => do some (.base (.zerof (← n.toNat?)))
  | ["scalef", c] => do some (.scalef (← CRat.parse c))
  | ["powf", p] => do some (.powf (← p.toNat?))
  | ["repart", n] => do some (.repart (← n.toNat?))   -- ComplexEmbedding ∘ RealPart on cn(n)
  | ["impart", n] => do some (.impart (← n.toNat?))   -- ComplexEmbedding ∘ ImagPart on cn(n)
  | ["inner", n, y] => do
      let n ← n.toNat?
      let y ← parseCList y
      if y.length ≠ n then none
      some (.inner n y false)
  | ["linf", n, y] => do
      let n ← n.toNat?
      let y ← parseCList y
      if y.length ≠ n then none
      some (.inner n y true)
  | ["l2sq", n] => do some (.l2sq (← n.toNat?))
  | _ => none

/-- executable leaf: its dispatch-visible info and its map, both from the model spec -/
def parseLeafKind (id : Nat) (parts : List String) : Option (Leaf × (V → V)) := do
  let sp ← parseSpec parts
  some (sp.info id, sp.map cratStruct)

/-- `<lin><fn>~kind~…`: the two flags are read from the live object by the harness
(`op.is_linear`, `isinstance(op, Functional)`); the kind only selects the executable map and
the spaces. -/
def parseLeaf (id : Nat) (s : String) : Option (Leaf × (V → V)) :=
  match s.splitOn "~" with
  | flags :: parts => do
      let (l, f) ← parseLeafKind id parts
      let (lin, fn) ← match flags with
        | "00" => some (false, false) | "01" => some (false, true)
        | "10" => some (true, false) | "11" => some (true, true) | _ => none
      some ({ l with lin := lin, fn := fn }, f)
  | _ => none

def parseLeaves (s : String) : Option (Array (Leaf × (V → V))) := do
  let parts := s.splitOn "|"
  let mut out := #[]
  for p in parts do
    let l ← parseLeaf out.size p
    out := out.push l
  return out

def parseSOp : String → Option SOp
  | "s.lmul" => some .lmul | "s.rmul" => some .rmul | "s.div" => some .div
  | "s.add" => some .add | "s.radd" => some .radd | "s.sub" => some .sub
  | "s.rsub" => some .rsub | _ => none

def parseVOp : String → Option VOp
  | "v.lmul" => some .lmul | "v.rmul" => some .rmul
  | "v.add" => some .add | "v.radd" => some .radd | "v.sub" => some .sub
  | "v.rsub" => some .rsub | _ => none

def parseBOp : String → Option BOp
  | "add" => some .add | "sub" => some .sub | "mul" => some .mul
  | "pprod" => some .pprod | "quot" => some .quot | _ => none

def step (leaves : Array (Leaf × (V → V))) (st : List (Expr CRat)) (tok : String) :
    Option (List (Expr CRat)) :=
  match tok.splitOn "~" with
  | ["L", id] => do
      let id ← id.toNat?
      let l ← leaves[id]?
      some (.leaf l.1 :: st)
  | ["neg"] => match st with
      | a :: r => some (.neg a :: r)
      | _ => none
  | ["pow", n] => do
      let n ← n.toNat?
      match st with
      | a :: r => some (.pow a n :: r)
      | _ => none
  | [o] => do
      let o ← parseBOp o
      match st with
      | b :: a :: r => some (.bin o a b :: r)
      | _ => none
  | [o, arg, re] =>
      match parseSOp o, st with
      | some so, a :: r => do
          let c ← CRat.parse arg
          let re ← match re with | "1" => some true | "0" => some false | _ => none
          some (.sc so a c re :: r)
      | _, _ => none
  | [o, arg] =>
      match parseVOp o, st with
      | some vo, a :: r => do
          let v ← parseCList arg
          some (.vc vo a ⟨v.length, ofList v⟩ :: r)
      | _, _ => none
  | _ => none

def parseExpr (leaves : Array (Leaf × (V → V))) (s : String) : Option (Expr CRat) := do
  let st ← (s.splitOn "|").foldlM (step leaves) []
  match st with
  | [e] => some e
  | _ => none

def showVec (n : Nat) (v : V) : String := "[" ++ showCList (toList n v) ++ "]"

/-- canonical class tree -/
def showImpl : Impl CRat → String
  | .leaf i => s!"L{i.id}"
  | .sum fn l r => (if fn then "FunctionalSum(" else "OperatorSum(") ++ showImpl l ++ "," ++ showImpl r ++ ")"
  | .scalSum f c => "FunctionalScalarSum(" ++ showImpl f ++ "," ++ c.str ++ ")"
  | .vecSum a v => "OperatorVectorSum(" ++ showImpl a ++ "," ++ showVec (spDim a.ran) v ++ ")"
  | .comp fn l r => (if fn then "FunctionalComp(" else "OperatorComp(") ++ showImpl l ++ "," ++ showImpl r ++ ")"
  | .pprod fn l r => (if fn then "FunctionalProduct(" else "OperatorPointwiseProduct(") ++ showImpl l ++ "," ++ showImpl r ++ ")"
  | .quot l r => "FunctionalQuotient(" ++ showImpl l ++ "," ++ showImpl r ++ ")"
  | .lscal fn a s => (if fn then "FunctionalLeftScalarMult(" else "OperatorLeftScalarMult(") ++ showImpl a ++ "," ++ s.str ++ ")"
  | .rscal fn a s => (if fn then "FunctionalRightScalarMult(" else "OperatorRightScalarMult(") ++ showImpl a ++ "," ++ s.str ++ ")"
  | .lvec a v => "OperatorLeftVectorMult(" ++ showImpl a ++ "," ++ showVec (spDim a.ran) v ++ ")"
  | .rvec fn a v => (if fn then "FunctionalRightVectorMult(" else "OperatorRightVectorMult(") ++ showImpl a ++ "," ++ showVec (spDim a.dom) v ++ ")"
  | .flvec a v => "FunctionalLeftVectorMult(" ++ showImpl a ++ "," ++ showVec v.n v.val ++ ")"
  | .const _ c => "ConstantFunctional(" ++ (c 0).str ++ ")"
  | .zero _ => "ZeroFunctional()"

def b01 (b : Bool) : String := if b then "1" else "0"

def showTy : Option Ty → String
  | none => "none"
  | some t => s!"{showSp t.dom}>{showSp t.ran}/{b01 t.fn}"

def doExpr (l : Line) : Option String := do
  let leaves ← l.get? "leaves" >>= parseLeaves
  let e ← l.get? "e" >>= parseExpr leaves
  let x ← l.crats? "x"
  let env : Nat → V → V := fun id => match leaves[id]? with
    | some lf => lf.2
    | none => fun _ _ => 0
  let ty := typeOf e
  -- the same expression through the EXTRACTED dispatch tables
  let viaT := (buildT Gen.AlgebraDispatch.tables env e).map showImpl
  match build env e with
  | none => some s!"raise ty={showTy ty} tt={b01 (viaT == none)}"
  | some i =>
    let xv := ofList x
    let n := spDim i.ran
    let val := toList n (run env i xv)
    let inp := toList n (runIn env i xv)
    let d := toList n (den env e xv)
    -- in-place value through the EXTRACTED statement lists, with unspecified (junk) contents of
    -- `out` and of every fresh temporary
    let junk : V := fun j => ⟨((77 + j : Nat) : Rat), -5⟩
    let out0 : V := fun j => ⟨-13, ((j + 1 : Nat) : Rat)⟩
    -- (`ix=0` on the wire: not evaluated for this case — the harness samples the thorough tier)
    let inpx := if l.get? "ix" == some "0" then "skip" else
      showCList (toList n (runInBy Gen.AlgebraDispatch.inplaceOf Gen.AlgebraDispatch.callOf env junk i xv out0))
    some s!"ok tree={showImpl i} dom={showSp i.dom} ran={showSp i.ran} lin={b01 i.lin} fn={b01 i.isFn} ty={showTy ty} linof={b01 (linOf e)} nf={b01 i.merged} tt={b01 (viaT == some (showImpl i) && i.linBy Gen.AlgebraDispatch.flagOf == i.lin && toList n (runBy Gen.AlgebraDispatch.callOf env i xv) == val)} val={showCList val} inp={showCList inp} inpx={inpx} den={showCList d}"

def showCls : LinClass → String
  | .all => "all" | .realOnly => "real" | .none => "none"

def scaleV (s : CRat) (x : V) : V := fun j => s * x j

/-- `leafclass leaf=<kind~…> x=<entries> y=<entries> s=<scalar> t=<real scalar>`: the leaf spec
ALONE (no flags from the wire): the flags the model gives it (`LeafSpecC.info`), its linearity
class (`LeafSpecC.cls`), and its map (`LeafSpecC.map cratStruct`) at `x`, `s*x`, `t*x`, `x+y`, `y`. -/
def doLeafClass (l : Line) : Option String := do
  let sp ← (l.get? "leaf").bind (fun s => parseSpec (s.splitOn "~"))
  let x ← l.crats? "x"
  let y ← l.crats? "y"
  let s ← l.crat? "s"
  let t ← l.crat? "t"
  let info := sp.info 0
  if x.length ≠ spDim info.dom || y.length ≠ spDim info.dom then none
  let f := sp.map cratStruct
  let n := spDim info.ran
  let xv := ofList x
  let yv := ofList y
  let out (v : V) : String := showCList (toList n (f v))
  some s!"ok cls={showCls sp.cls} lin={b01 info.lin} fn={b01 info.fn} dom={showSp info.dom} ran={showSp info.ran} fx={out xv} fy={out yv} fsx={out (scaleV s xv)} ftx={out (scaleV t xv)} fxy={out (fun j => xv j + yv j)}"

def handle (l : Line) : Option String :=
  match l.op with
  | "expr" => doExpr l
  | "leafclass" => doLeafClass l
  | _ => none

def main : IO Unit := driverLoop handle
