import OdlModel.Common
import OdlModel.Model.CRat
import OdlModel.Model.OpAlgebra
import OdlModel.Model.OpDispatch
import OdlModel.Model.OpLeaves
import OdlModel.Gen.AlgebraDispatch
open OdlModel OdlModel.OpAlgebra

/-!
`expr leaves=<leaf|leaf|…> e=<rpn token|token|…> x=<entries>`
answers `ok tree=… dom=… ran=… lin=0|1 fn=0|1 ty=… linof=0|1 tt=0|1 val=… inp=… den=…` or
`raise ty=… tt=0|1` (`tt`: the dispatch through the extracted tables gives the same object).

leaf   : `<lin><fn>~` + one of `shift~n~p` `repart~n` `impart~n` `scalef~c` `powf~p` (field -> field) `mat~ndom~nran~rows` `scale~n~c` `ident~n` `pow~n~p` `inner~n~y` `l2sq~n` `constf~n~c`
         `zerof~n` `linf~n~y` (leaf id = position)
tokens : `L~id` `neg` `pow~n` `add` `sub` `mul` `pprod` `quot`
         `s.lmul~c~r` `s.rmul~c~r` `s.div~c~r` `s.add~c~r` `s.radd~c~r` `s.sub~c~r` `s.rsub~c~r`
         (r = 1 iff isinstance(c, numbers.Real))
         `v.lmul~list` `v.rmul~list` `v.add~list` `v.radd~list` `v.sub~list` `v.rsub~list`
Scalars/entries are Gaussian rationals `re` or `re:im`.
-/

abbrev V := Vec CRat

def ofList (l : List CRat) : V :=
  let a := l.toArray
  fun j => a.getD j 0

def toList (n : Nat) (v : V) : List CRat := (List.range n).map v

def spDim : Sp → Nat
  | .vec n => n
  | .fld => 1

def showSp : Sp → String
  | .vec n => s!"v{n}"
  | .fld => "F"

def sumTo (n : Nat) (f : Nat → CRat) : CRat := (List.range n).foldl (fun acc k => acc + f k) 0

def cpow (z : CRat) (p : Nat) : CRat := (List.replicate p z).foldl (· * ·) 1

/-- executable leaf: its dispatch-visible info (id filled in later) and its map -/
def parseLeafKind (id : Nat) (parts : List String) : Option (Leaf × (V → V)) :=
  match parts with
  | ["mat", nd, nr, rows] => do
      let nd ← nd.toNat?
      let nr ← nr.toNat?
      let m ← (rows.splitOn ";").mapM parseCList
      if m.length ≠ nr || m.any (·.length ≠ nd) then none
      let sp : LeafSpec CRat := .mat nd nr m
      some (sp.info id, sp.map)
  | ["scale", n, c] => do
      let n ← n.toNat?
      let c ← CRat.parse c
      let sp : LeafSpec CRat := .scale n c
      some (sp.info id, sp.map)
  | ["ident", n] => do
      let n ← n.toNat?
      let sp : LeafSpec CRat := .ident n
      some (sp.info id, sp.map)
  | ["pow", n, p] => do
      let n ← n.toNat?
      let p ← p.toNat?
      let sp : LeafSpec CRat := .pow n p
      some (sp.info id, sp.map)
  | ["scalef", c] => do
      let c ← CRat.parse c
      some (⟨id, .fld, .fld, true, false⟩, fun x => let v := c * x 0; fun _ => v)
  | ["powf", p] => do
      let p ← p.toNat?
      some (⟨id, .fld, .fld, false, false⟩, fun x => let v := cpow (x 0) p; fun _ => v)
  | ["shift", n, p] => do   -- harness operator out[j] = x[(j+1) mod n] ^ p (not alias-safe)
      let n ← n.toNat?
      let p ← p.toNat?
      let sp : LeafSpec CRat := .shift n p
      some (sp.info id, sp.map)
  | ["repart", n] => do   -- ComplexEmbedding ∘ RealPart on cn(n): real-linear only
      let n ← n.toNat?
      some (⟨id, .vec n, .vec n, true, false⟩, fun x j => if j < n then ⟨(x j).re, 0⟩ else 0)
  | ["impart", n] => do   -- ComplexEmbedding ∘ ImagPart on cn(n)
      let n ← n.toNat?
      some (⟨id, .vec n, .vec n, true, false⟩, fun x j => if j < n then ⟨(x j).im, 0⟩ else 0)
  | ["inner", n, y] => do
      let n ← n.toNat?
      let y ← parseCList y
      if y.length ≠ n then none
      let ya := y.toArray
      some (⟨id, .vec n, .fld, true, false⟩, fun x =>
        let v := sumTo n (fun k => x k * (ya.getD k 0).conj)
        fun _ => v)
  | ["linf", n, y] => do
      let n ← n.toNat?
      let y ← parseCList y
      if y.length ≠ n then none
      let ya := y.toArray
      some (⟨id, .vec n, .fld, true, true⟩, fun x =>
        let v := sumTo n (fun k => x k * (ya.getD k 0).conj)
        fun _ => v)
  | ["l2sq", n] => do
      let n ← n.toNat?
      some (⟨id, .vec n, .fld, false, true⟩, fun x =>
        let v := sumTo n (fun k => x k * (x k).conj)
        fun _ => v)
  | ["constf", n, c] => do
      let n ← n.toNat?
      let c ← CRat.parse c
      let sp : LeafSpec CRat := .constf n c
      some (sp.info id, sp.map)
  | ["zerof", n] => do
      let n ← n.toNat?
      let sp : LeafSpec CRat := .zerof n
      some (sp.info id, sp.map)
  | _ => none

/-- `<lin><fn>~kind~…`: the two flags are read from the live object by the harness
(`op.is_linear`, `isinstance(op, Functional)`); the kind only selects the executable map and
the spaces. -/
def parseLeaf (id : Nat) (s : String) : Option (Leaf × (V → V)) :=
  match s.splitOn "~" with
  | flags :: parts => do
      let (l, f) ← parseLeafKind id parts
      let (lin, fn) ← match flags with
        | "00" => some (false, false) | "01" => some (false, true)
        | "10" => some (true, false) | "11" => some (true, true) | _ => none
      some ({ l with lin := lin, fn := fn }, f)
  | _ => none

def parseLeaves (s : String) : Option (Array (Leaf × (V → V))) := do
  let parts := s.splitOn "|"
  let mut out := #[]
  for p in parts do
    let l ← parseLeaf out.size p
    out := out.push l
  return out

def parseSOp : String → Option SOp
  | "s.lmul" => some .lmul | "s.rmul" => some .rmul | "s.div" => some .div
  | "s.add" => some .add | "s.radd" => some .radd | "s.sub" => some .sub
  | "s.rsub" => some .rsub | _ => none

def parseVOp : String → Option VOp
  | "v.lmul" => some .lmul | "v.rmul" => some .rmul
  | "v.add" => some .add | "v.radd" => some .radd | "v.sub" => some .sub
  | "v.rsub" => some .rsub | _ => none

def parseBOp : String → Option BOp
  | "add" => some .add | "sub" => some .sub | "mul" => some .mul
  | "pprod" => some .pprod | "quot" => some .quot | _ => none

def step (leaves : Array (Leaf × (V → V))) (st : List (Expr CRat)) (tok : String) :
    Option (List (Expr CRat)) :=
  match tok.splitOn "~" with
  | ["L", id] => do
      let id ← id.toNat?
      let l ← leaves[id]?
      some (.leaf l.1 :: st)
  | ["neg"] => match st with
      | a :: r => some (.neg a :: r)
      | _ => none
  | ["pow", n] => do
      let n ← n.toNat?
      match st with
      | a :: r => some (.pow a n :: r)
      | _ => none
  | [o] => do
      let o ← parseBOp o
      match st with
      | b :: a :: r => some (.bin o a b :: r)
      | _ => none
  | [o, arg, re] =>
      match parseSOp o, st with
      | some so, a :: r => do
          let c ← CRat.parse arg
          let re ← match re with | "1" => some true | "0" => some false | _ => none
          some (.sc so a c re :: r)
      | _, _ => none
  | [o, arg] =>
      match parseVOp o, st with
      | some vo, a :: r => do
          let v ← parseCList arg
          some (.vc vo a ⟨v.length, ofList v⟩ :: r)
      | _, _ => none
  | _ => none

def parseExpr (leaves : Array (Leaf × (V → V))) (s : String) : Option (Expr CRat) := do
  let st ← (s.splitOn "|").foldlM (step leaves) []
  match st with
  | [e] => some e
  | _ => none

def showVec (n : Nat) (v : V) : String := "[" ++ showCList (toList n v) ++ "]"

/-- canonical class tree -/
def showImpl : Impl CRat → String
  | .leaf i => s!"L{i.id}"
  | .sum fn l r => (if fn then "FunctionalSum(" else "OperatorSum(") ++ showImpl l ++ "," ++ showImpl r ++ ")"
  | .scalSum f c => "FunctionalScalarSum(" ++ showImpl f ++ "," ++ c.str ++ ")"
  | .vecSum a v => "OperatorVectorSum(" ++ showImpl a ++ "," ++ showVec (spDim a.ran) v ++ ")"
  | .comp fn l r => (if fn then "FunctionalComp(" else "OperatorComp(") ++ showImpl l ++ "," ++ showImpl r ++ ")"
  | .pprod fn l r => (if fn then "FunctionalProduct(" else "OperatorPointwiseProduct(") ++ showImpl l ++ "," ++ showImpl r ++ ")"
  | .quot l r => "FunctionalQuotient(" ++ showImpl l ++ "," ++ showImpl r ++ ")"
  | .lscal fn a s => (if fn then "FunctionalLeftScalarMult(" else "OperatorLeftScalarMult(") ++ showImpl a ++ "," ++ s.str ++ ")"
  | .rscal fn a s => (if fn then "FunctionalRightScalarMult(" else "OperatorRightScalarMult(") ++ showImpl a ++ "," ++ s.str ++ ")"
  | .lvec a v => "OperatorLeftVectorMult(" ++ showImpl a ++ "," ++ showVec (spDim a.ran) v ++ ")"
  | .rvec fn a v => (if fn then "FunctionalRightVectorMult(" else "OperatorRightVectorMult(") ++ showImpl a ++ "," ++ showVec (spDim a.dom) v ++ ")"
  | .flvec a v => "FunctionalLeftVectorMult(" ++ showImpl a ++ "," ++ showVec v.n v.val ++ ")"
  | .const _ c => "ConstantFunctional(" ++ (c 0).str ++ ")"
  | .zero _ => "ZeroFunctional()"

def b01 (b : Bool) : String := if b then "1" else "0"

def showTy : Option Ty → String
  | none => "none"
  | some t => s!"{showSp t.dom}>{showSp t.ran}/{b01 t.fn}"

def doExpr (l : Line) : Option String := do
  let leaves ← l.get? "leaves" >>= parseLeaves
  let e ← l.get? "e" >>= parseExpr leaves
  let x ← l.crats? "x"
  let env : Nat → V → V := fun id => match leaves[id]? with
    | some lf => lf.2
    | none => fun _ _ => 0
  let ty := typeOf e
  -- the same expression through the EXTRACTED dispatch tables
  let viaT := (buildT Gen.AlgebraDispatch.tables env e).map showImpl
  match build env e with
  | none => some s!"raise ty={showTy ty} tt={b01 (viaT == none)}"
  | some i =>
    let xv := ofList x
    let n := spDim i.ran
    let val := toList n (run env i xv)
    let inp := toList n (runIn env i xv)
    let d := toList n (den env e xv)
    some s!"ok tree={showImpl i} dom={showSp i.dom} ran={showSp i.ran} lin={b01 i.lin} fn={b01 i.isFn} ty={showTy ty} linof={b01 (linOf e)} nf={b01 i.merged} tt={b01 (viaT == some (showImpl i) && i.linBy Gen.AlgebraDispatch.flagOf == i.lin && toList n (runBy Gen.AlgebraDispatch.callOf env i xv) == val)} val={showCList val} inp={showCList inp} den={showCList d}"

def handle (l : Line) : Option String :=
  match l.op with
  | "expr" => doExpr l
  | _ => none

def main : IO Unit := driverLoop handle
