import OdlModel.Common
import OdlModel.Model.ResizeBase
import OdlModel.Gen.PadSlices
import OdlModel.Model.Resize
import OdlModel.Model.ResizeRef
import OdlModel.Model.ResizeOperator
open OdlModel OdlModel.Resize

def parseMode : String → Option Mode
  | "constant" => some .constant
  | "symmetric" => some .symmetric
  | "periodic" => some .periodic
  | "order0" => some .order0
  | "order1" => some .order1
  | _ => none

def parseDir : String → Option Dir
  | "forward" => some .forward
  | "adjoint" => some .adjoint
  | _ => none

def showErr : Err → String
  | .padConstAdjoint => "err:padconst-adjoint"
  | .order0Empty => "err:order0-empty"
  | .order1Short => "err:order1-short"
  | .periodicTooLong => "err:periodic-too-long"
  | .symmetricTooLong => "err:symmetric-too-long"
  | .offset => "err:offset"

/-- C-order flat index. -/
def flatIdx (shape idx : List Nat) : Nat :=
  (List.zip shape idx).foldl (fun acc p => acc * p.1 + p.2) 0

def allIdx : List Nat → List (List Nat)
  | [] => [[]]
  | n :: rest => (List.range n).flatMap (fun i => (allIdx rest).map (i :: ·))

/-- Evaluate on the whole box and store (plumbing: keeps nested closures from being
re-evaluated; the function values are those of the model). -/
def tabulate (shape : List Nat) (A : List Nat → Rat) : Array Rat :=
  ((allIdx shape).map A).toArray

/-- `resizeAxes` / `resizeAxesRev` of the model with a `tabulate` after every axis. -/
def runAxes (mode : Mode) (dir : Dir) (c : Rat) (rev : Bool) (sIn sOut offs : List Nat)
    (A : List Nat → Rat) : List Nat → Rat := Id.run do
  let d := sIn.length
  let mut cur := A
  let mut shape := sIn
  let axes := if rev then (List.range d).reverse else List.range d
  for ax in axes do
    let nIn := sIn.getD ax 0
    let nOut := sOut.getD ax 0
    let off := offs.getD ax 0
    shape := shape.set ax nOut
    let arr := tabulate shape (alongAxis ax (resizeCore mode dir nIn nOut off c) cur)
    let shp := shape
    cur := fun idx => arr.getD (flatIdx shp idx) 0
  return cur

/-- `resize mode=M dir=D shape=… newshape=… off=… c=R data=… [order=rev]`
answers `ok r=<C-order values>` or `err:<guard>`. -/
def doResize (l : Line) : Option String := do
  let mode ← l.get? "mode" >>= parseMode
  let dir ← l.get? "dir" >>= parseDir
  let sIn ← l.nats? "shape"
  let sOut ← l.nats? "newshape"
  let offs ← l.nats? "off"
  let c ← l.rat? "c"
  let data ← l.rats? "data"
  let rev := l.get? "order" == some "rev"
  if sIn.length ≠ sOut.length || sIn.length ≠ offs.length then none
  if data.length ≠ sIn.foldl (· * ·) 1 then none
  let arr := data.toArray
  let A : List Nat → Rat := fun idx => arr.getD (flatIdx sIn idx) 0
  match checkND mode dir c sIn sOut offs with
  | some e => some (showErr e)
  | none =>
    let R := runAxes mode dir c rev sIn sOut offs A
    some s!"ok r={showRatList ((allIdx sOut).map R)}"

/-- The same through the model's own `resizeND` (no tabulation; small cases only). -/
def doResizeDirect (l : Line) : Option String := do
  let mode ← l.get? "mode" >>= parseMode
  let dir ← l.get? "dir" >>= parseDir
  let sIn ← l.nats? "shape"
  let sOut ← l.nats? "newshape"
  let offs ← l.nats? "off"
  let c ← l.rat? "c"
  let data ← l.rats? "data"
  if sIn.length ≠ sOut.length || sIn.length ≠ offs.length then none
  if data.length ≠ sIn.foldl (· * ·) 1 then none
  let arr := data.toArray
  let A : List Nat → Rat := fun idx => arr.getD (flatIdx sIn idx) 0
  match resizeND mode dir sIn sOut offs c A with
  | .error e => some (showErr e)
  | .ok R => some s!"ok r={showRatList ((allIdx sOut).map R)}"

/-- `refnd mode=… shape=… newshape=… off=… c=R data=…`: the n-d reference `refAxes`
(NumPy-style padding / cropping applied axis by axis) of `C16.forward_nd_eq_reference`. -/
def doRefND (l : Line) : Option String := do
  let mode ← l.get? "mode" >>= parseMode
  let sIn ← l.nats? "shape"
  let sOut ← l.nats? "newshape"
  let offs ← l.nats? "off"
  let c ← l.rat? "c"
  let data ← l.rats? "data"
  if sIn.length ≠ sOut.length || sIn.length ≠ offs.length then none
  if data.length ≠ sIn.foldl (· * ·) 1 then none
  let arr := data.toArray
  let A : List Nat → Rat := fun idx => arr.getD (flatIdx sIn idx) 0
  let R := refAxes mode c 0 sIn sOut offs A
  some s!"ok r={showRatList ((allIdx sOut).map R)}"

/-- `nppad mode=M n=N nout=M off=O c=R data=…`: the reference index formulas
(`npConstant/npWrap/npReflect/npEdge`, `linExtrap` for order1) on `[0, nout)`. -/
def doNpPad (l : Line) : Option String := do
  let mode ← l.get? "mode" >>= parseMode
  let n ← l.nat? "n"
  let nOut ← l.nat? "nout"
  let off ← l.nat? "off"
  let c ← l.rat? "c"
  let data ← l.rats? "data"
  if data.length ≠ n then none
  let arr := data.toArray
  let x : Nat → Rat := fun i => arr.getD i 0
  let r : Nat → Rat := npPad mode n off c x
  some s!"ok r={showRatList ((List.range nOut).map r)}"

def showOptInt : Option Int → String
  | none => "none"
  | some v => toString v

/-- `discr lo=R hi=R n=N bl=0|1 br=0|1 nnew=M off=<int|none> bl2=0|1 br2=0|1`
answers the range axis of `_resize_discr` and the left grid shift in cells. -/
def doDiscr (l : Line) : Option String := do
  let lo ← l.rat? "lo"
  let hi ← l.rat? "hi"
  let n ← l.nat? "n"
  let bl ← l.bool? "bl"
  let br ← l.bool? "br"
  let nNew ← l.nat? "nnew"
  let offS ← l.get? "off"
  let off ← if offS = "none" then some none else (offS.toInt?).map some
  let bl2 ← l.bool? "bl2"
  let br2 ← l.bool? "br2"
  if n = 0 || nNew = 0 then none
  let a : Axis Rat := ⟨lo, hi, n, bl, br⟩
  let r := resizeAxis a nNew off bl2 br2
  let shift := (r.gridMin - a.gridMin) / a.cell
  some s!"ok lo={showRat r.lo} hi={showRat r.hi} cell={showRat r.cell} shift={showRat shift}"

def parseWeighting (s : String) : Option (Weighting Rat) :=
  match s.splitOn ":" with
  | ["const", v] => (parseRat v).map Weighting.const
  | ["array", v] => (parseRatList v).map fun l =>
      let arr := l.toArray
      Weighting.array (fun i => arr.getD i 0)
  | _ => none

/-- `opadj mode=M m=.. n=.. off=.. wr=<const:R|array:…> fl=R fr=R wd=<…> gl=R gr=R data=…`:
`ResizingOperatorAdjoint._call` on one axis (`opAdjointW`), range of length `m` with weighting
`wr` and boundary-cell fractions `(fl, fr)`, domain of length `n` with `wd`, `(gl, gr)`. -/
def doOpAdj (l : Line) : Option String := do
  let mode ← l.get? "mode" >>= parseMode
  let m ← l.nat? "m"
  let n ← l.nat? "n"
  let off ← l.nat? "off"
  let wr ← l.get? "wr" >>= parseWeighting
  let wd ← l.get? "wd" >>= parseWeighting
  let fl ← l.rat? "fl"
  let fr ← l.rat? "fr"
  let gl ← l.rat? "gl"
  let gr ← l.rat? "gr"
  let data ← l.rats? "data"
  if data.length ≠ m then none
  if gl = 0 || gr = 0 then none
  if (List.range n).any (fun j => wd.at j = 0) then none
  let arr := data.toArray
  let y : Nat → Rat := fun i => arr.getD i 0
  match opAdjointW mode m n off wr (bdryFrac 1 m fl fr) wd (bdryFrac 1 n gl gr) y with
  | .error e => some (showErr e)
  | .ok r => some s!"ok r={showRatList ((List.range n).map r)}"

/-- `opadjnd mode=M shape=<range shape> newshape=<domain shape> off=… wr=<C-order weights of the
range> wd=<… of the domain> data=…`: the model's `opAdjointND`. -/
def doOpAdjND (l : Line) : Option String := do
  let mode ← l.get? "mode" >>= parseMode
  let sOut ← l.nats? "shape"
  let sIn ← l.nats? "newshape"
  let offs ← l.nats? "off"
  let wr ← l.rats? "wr"
  let wd ← l.rats? "wd"
  let data ← l.rats? "data"
  if sIn.length ≠ sOut.length || sIn.length ≠ offs.length then none
  let nOut := sOut.foldl (· * ·) 1
  let nIn := sIn.foldl (· * ·) 1
  if data.length ≠ nOut || wr.length ≠ nOut || wd.length ≠ nIn then none
  if wd.any (· = 0) then none
  let arr := data.toArray
  let wra := wr.toArray
  let wda := wd.toArray
  let Y : List Nat → Rat := fun idx => arr.getD (flatIdx sOut idx) 0
  let WR : List Nat → Rat := fun idx => wra.getD (flatIdx sOut idx) 0
  let WD : List Nat → Rat := fun idx => wda.getD (flatIdx sIn idx) 1
  match checkND mode .adjoint (0 : Rat) sOut sIn offs with
  | some e => some (showErr e)
  | none =>
    let R := opAdjointND mode sOut sIn offs WR WD Y
    some s!"ok r={showRatList ((allIdx sIn).map R)}"

/-- `offsp lo= hi= n= bl= br= rlo= rhi= rn= rbl= rbr=`: `_offset_from_spaces` for one axis. -/
def doOffSp (l : Line) : Option String := do
  let lo ← l.rat? "lo"
  let hi ← l.rat? "hi"
  let n ← l.nat? "n"
  let bl ← l.bool? "bl"
  let br ← l.bool? "br"
  let rlo ← l.rat? "rlo"
  let rhi ← l.rat? "rhi"
  let rn ← l.nat? "rn"
  let rbl ← l.bool? "rbl"
  let rbr ← l.bool? "rbr"
  if n = 0 || rn = 0 then none
  let dom : Axis Rat := ⟨lo, hi, n, bl, br⟩
  if dom.cell = 0 then none
  match offsetFromAxes dom ⟨rlo, rhi, rn, rbl, rbr⟩ with
  | .ok k => some s!"ok off={k}"
  | .error .notMultiple => some "err:shift-not-multiple"
  | .error .notContained => some "err:not-contained"
  | .error .shiftedUnchanged => some "err:shifted-unchanged"

/-! ### round 4: `ResizingOperator.inverse`, `.derivative`, `.adjoint` through `ROp` -/

/-- common part: `mode= shape=<domain shape> newshape=<range shape> off= c=` -/
def parseROp (l : Line) : Option (ROp Rat) := do
  let mode ← l.get? "mode" >>= parseMode
  let sIn ← l.nats? "shape"
  let sOut ← l.nats? "newshape"
  let offs ← l.nats? "off"
  let c ← l.rat? "c"
  if sIn.length ≠ sOut.length || sIn.length ≠ offs.length then none
  some ⟨mode, c, sIn, sOut, offs⟩

def boxData (shape : List Nat) (data : List Rat) : Option (List Nat → Rat) :=
  if data.length ≠ shape.foldl (· * ·) 1 then none
  else
    let arr := data.toArray
    some (fun idx => arr.getD (flatIdx shape idx) 0)

def showResult (shape : List Nat) : Except Err (List Nat → Rat) → String
  | .error e => showErr e
  | .ok R => s!"ok r={showRatList ((allIdx shape).map R)}"

/-- `opinv … data=<element of the RANGE>`: `op.inverse(y)` = `ROp.inverse` then `ROp.call`. -/
def doOpInv (l : Line) : Option String := do
  let op ← parseROp l
  let Y ← l.rats? "data" >>= boxData op.sOut
  let inv := op.inverse
  some (showResult inv.sOut (inv.call Y))

/-- `opinv2 … data=<element of the DOMAIN>`: `op.inverse(op(x))` (both calls in the model). -/
def doOpInv2 (l : Line) : Option String := do
  let op ← parseROp l
  let X ← l.rats? "data" >>= boxData op.sIn
  match op.call X with
  | .error e => some (showErr e)
  | .ok R =>
    -- tabulate between the two calls (plumbing, values are the model's)
    let arr := tabulate op.sOut R
    let R' : List Nat → Rat := fun idx => arr.getD (flatIdx op.sOut idx) 0
    some (showResult op.sIn (op.inverse.call R'))

/-- `opderiv … data=<element of the DOMAIN>`: `op.derivative(·)(x)`; `same=1` iff the derivative
is the operator itself, `c` its `pad_const`, `lin` its linearity flag. -/
def doOpDeriv (l : Line) : Option String := do
  let op ← parseROp l
  let X ← l.rats? "data" >>= boxData op.sIn
  let d := op.derivative
  let same := if d = op then "1" else "0"
  let lin := if d.isLinear then "1" else "0"
  let oplin := if op.isLinear then "1" else "0"
  let axes := showNatList op.axes
  match d.call X with
  | .error e => some s!"{showErr e} same={same} c={showRat d.c} lin={lin} oplin={oplin} axes={axes}"
  | .ok R =>
    some s!"ok same={same} c={showRat d.c} lin={lin} oplin={oplin} axes={axes} r={showRatList ((allIdx d.sOut).map R)}"

/-- `opadjraw … data=<element of the RANGE>`: `op.adjoint(y)` without weights
(`ROp.adjointCall`); `not-implemented` for a non-linear operator. -/
def doOpAdjRaw (l : Line) : Option String := do
  let op ← parseROp l
  let Y ← l.rats? "data" >>= boxData op.sOut
  match op.adjointCall Y with
  | none => some "not-implemented"
  | some r => some (showResult op.sIn r)

def mkAxes (lo hi : List Rat) (n bl br : List Nat) : Option (List (Axis Rat)) :=
  if lo.length ≠ hi.length || lo.length ≠ n.length || lo.length ≠ bl.length ||
      lo.length ≠ br.length then none
  else if n.any (· = 0) then none
  else some ((List.range lo.length).map fun k =>
    ⟨lo.getD k 0, hi.getD k 0, n.getD k 1, bl.getD k 0 ≠ 0, br.getD k 0 ≠ 0⟩)

/-- `invoff lo= hi= n= bl= br= rlo= rhi= rn= rbl= rbr=` (lists over the axes): the offsets the
constructor called by `inverse` computes, `_offset_from_spaces(range, domain)`. -/
def doInvOff (l : Line) : Option String := do
  let doms ← mkAxes (← l.rats? "lo") (← l.rats? "hi") (← l.nats? "n") (← l.nats? "bl")
    (← l.nats? "br")
  let rans ← mkAxes (← l.rats? "rlo") (← l.rats? "rhi") (← l.nats? "rn") (← l.nats? "rbl")
    (← l.nats? "rbr")
  if doms.length ≠ rans.length then none
  if rans.any (fun a => a.cell = 0) then none
  match inverseOffsets doms rans with
  | .ok ks => some s!"ok off={",".intercalate (ks.map toString)}"
  | .error .notMultiple => some "err:shift-not-multiple"
  | .error .notContained => some "err:not-contained"
  | .error .shiftedUnchanged => some "err:shifted-unchanged"

/-- `offsptol lo= hi= n= bl= br= rlo= rhi= rn= rbl= rbr= rtol= atol=`: `_offset_from_spaces`
for one axis AS CODED (`np.around`, `np.isclose` with the given tolerances). -/
def doOffSpTol (l : Line) : Option String := do
  let lo ← l.rat? "lo"
  let hi ← l.rat? "hi"
  let n ← l.nat? "n"
  let bl ← l.bool? "bl"
  let br ← l.bool? "br"
  let rlo ← l.rat? "rlo"
  let rhi ← l.rat? "rhi"
  let rn ← l.nat? "rn"
  let rbl ← l.bool? "rbl"
  let rbr ← l.bool? "rbr"
  let rtol ← l.rat? "rtol"
  let atol ← l.rat? "atol"
  if n = 0 || rn = 0 then none
  let dom : Axis Rat := ⟨lo, hi, n, bl, br⟩
  if dom.cell = 0 then none
  match offsetFromAxesTol rtol atol dom ⟨rlo, rhi, rn, rbl, rbr⟩ with
  | .ok k => some s!"ok off={k}"
  | .error .notMultiple => some "err:shift-not-multiple"
  | .error .notContained => some "err:not-contained"
  | .error .shiftedUnchanged => some "err:shifted-unchanged"

/-! ### round 5: `apply_on_boundary`, `_scale_bdry_cells` -/

/-- `aob once=0|1 shape=… ax=<axis of step i> hl=<0|1> la= lb= hr=<0|1> ra= rb= data=…`: step `i`
applies `x ↦ la·x + lb` on the left boundary of axis `ax[i]` if `hl[i] = 1`, `x ↦ ra·x + rb` on
the right one if `hr[i] = 1`. -/
def doAob (l : Line) : Option String := do
  let once ← l.bool? "once"
  let shape ← l.nats? "shape"
  let ax ← l.nats? "ax"
  let hl ← l.nats? "hl"
  let la ← l.rats? "la"
  let lb ← l.rats? "lb"
  let hr ← l.nats? "hr"
  let ra ← l.rats? "ra"
  let rb ← l.rats? "rb"
  let A ← l.rats? "data" >>= boxData shape
  let k := ax.length
  if hl.length ≠ k || la.length ≠ k || lb.length ≠ k || hr.length ≠ k || ra.length ≠ k ||
      rb.length ≠ k then none
  if ax.any (· ≥ shape.length) then none
  let steps : List (BStep Rat) := (List.range k).map fun i =>
    ⟨ax.getD i 0,
     if hl.getD i 0 ≠ 0 then some (la.getD i 0, lb.getD i 0) else none,
     if hr.getD i 0 ≠ 0 then some (ra.getD i 0, rb.getD i 0) else none⟩
  let R := applyOnBoundary once shape (fun _ => (false, false)) steps A
  some s!"ok r={showRatList ((allIdx shape).map R)}"

/-- `scalebdry shape=… fl=<left fractions> fr=<right fractions> data=…`: `_scale_bdry_cells`
(`scaleBdryCells`) and, as a second list, multiplication by `bdryFracProd`. -/
def doScaleBdry (l : Line) : Option String := do
  let shape ← l.nats? "shape"
  let fls ← l.rats? "fl"
  let frs ← l.rats? "fr"
  let A ← l.rats? "data" >>= boxData shape
  if fls.length ≠ shape.length || frs.length ≠ shape.length then none
  let fracs := List.zip fls frs
  let R := scaleBdryCells shape fracs A
  let P : List Nat → Rat := fun idx => A idx * bdryFracProd 1 0 shape fracs idx
  some s!"ok r={showRatList ((allIdx shape).map R)} w={showRatList ((allIdx shape).map P)}"

def handle (l : Line) : Option String :=
  match l.op with
  | "resize" => doResize l
  | "resize-direct" => doResizeDirect l
  | "nppad" => doNpPad l
  | "refnd" => doRefND l
  | "discr" => doDiscr l
  | "opadj" => doOpAdj l
  | "opadjnd" => doOpAdjND l
  | "offsp" => doOffSp l
  | "opinv" => doOpInv l
  | "opinv2" => doOpInv2 l
  | "opderiv" => doOpDeriv l
  | "opadjraw" => doOpAdjRaw l
  | "invoff" => doInvOff l
  | "offsptol" => doOffSpTol l
  | "aob" => doAob l
  | "scalebdry" => doScaleBdry l
  | _ => none

def main : IO Unit := driverLoop handle
